"""C20 - group arithmetic (wNAF multi-exponentiation), encodings, secret sharing, key derivation.

Proof: Props/C20.v (wNAF recoding + evaluation = sum of scalar multiples in any abelian group, Shamir
reconstruction in the field and in the exponent, scalar codecs, keygen reduction, derivation paths).
Correspondence: the extracted Gallina models run on the same inputs as the Rust code (harness c20):
wNAF digit vectors (hook H3) digit-for-digit, multiexp results "in the exponent", scalar codecs,
scalar_from_bytes, share/reveal/reveal_in_group over Z mod r, keygen reduction, derivation paths.
Direct oracles on the implementation alone: multiexp = naive sum, decode/encode canonicity and
rejection classes for G1/G2/ristretto, hash_to_group, reveal with >= t / t-1 shares, key-derivation
vectors, public = secret * base, distinct paths => distinct keys."""
import json
import os
import subprocess
from . import common as c

BLS_R = 0x73eda753299d7d483339d80809a1d80553bda402fffe5bfeffffffff00000001
ED_L = 0x1000000000000000000000000000000014def9dea2f79cd65812631a5cf5d3ed
ORDER = {"g1": BLS_R, "g2": BLS_R, "ed": ED_L}


def run_model(runner, lines, timeout=3000, par=12):
    """Feed `lines` to the extracted model (one answer per line); the work is split over `par` processes."""
    if not lines:
        return []
    k = max(1, min(par, len(lines) // 8))
    size = (len(lines) + k - 1) // k
    chunks = [lines[i:i + size] for i in range(0, len(lines), size)]
    procs = [subprocess.Popen([runner], stdin=subprocess.PIPE, stdout=subprocess.PIPE, stderr=subprocess.PIPE) for _ in chunks]
    import threading
    res = [None] * len(chunks)

    def work(i):
        try:
            o, e = procs[i].communicate(("\n".join(chunks[i]) + "\n").encode(), timeout=timeout)
            res[i] = (procs[i].returncode, o.decode(), e.decode())
        except subprocess.TimeoutExpired:
            procs[i].kill()
            res[i] = (124, "", "timeout")
    ths = [threading.Thread(target=work, args=(i,)) for i in range(len(chunks))]
    for t in ths:
        t.start()
    for t in ths:
        t.join()
    out = []
    for (rc, o, e), ch in zip(res, chunks):
        ol = o.split("\n")
        if ol and ol[-1] == "":
            ol.pop()
        if rc != 0 or len(ol) != len(ch):
            raise RuntimeError("model runner failed (rc=%s, %d answers for %d lines): %s" % (rc, len(ol), len(ch), e[-500:]))
        out += ol
    return out


def run_harness_stdin(binp, mode, lines, timeout=3000):
    if not lines:
        return []
    rc, out = c.run_bin(binp, [mode], timeout=timeout, input=("\n".join(lines) + "\n").encode())
    res = [l for l in out.split("\n") if l != ""]
    if rc != 0 or len(res) != len(lines):
        raise RuntimeError("harness %s failed: rc=%s %d answers for %d lines: %s" % (mode, rc, len(res), len(lines), out[-500:]))
    return res


def harness_cases(ctx, binp, mode, n, timeout=3000):
    rc, out = c.run_bin(binp, [mode, ctx.seed, n], timeout=timeout)
    if rc != 0:
        ctx.violation({"layer": "harness run", "mode": mode, "output": out[-2000:]}, "c20 harness crashed in mode %s" % mode, no_input=True)
        return None
    return [json.loads(l) for l in out.splitlines() if l.startswith("{")]


def limbs_value(ls):
    return sum(int(x, 16) << (64 * i) for i, x in enumerate(ls))


def digits_ok(ds, w, nb, value):
    """The wNAF properties evaluated directly on a digit vector produced by the implementation."""
    if sum(d << j for j, d in enumerate(ds)) != value:
        return "sum of digits * 2^j differs from the scalar"
    for j, d in enumerate(ds):
        if d != 0:
            if d % 2 == 0 or abs(d) >= (1 << w):
                return "digit %d at %d is not odd with |d| < 2^w" % (d, j)
            if j > nb:
                return "non-zero digit at index %d > NUM_BITS" % j
    return None


class Stats:
    def __init__(self):
        self.seen = set()
        self.nontrivial = set()
        self.evals = 0
        self.traces = 0


def section_wnaf(ctx, binp, runner, st):
    n = 5000 if ctx.quick else 150000
    cases = harness_cases(ctx, binp, "wnaf", n)
    if cases is None:
        return
    lines = ["wnaf %d %d %s" % (cs["w"], len(cs["s"][0]), " ".join(cs["s"][0])) for cs in cases]
    outs = run_model(runner, lines)
    dist = {}
    mism = 0
    for cs, o in zip(cases, outs):
        dist[cs["cls"]] = dist.get(cs["cls"], 0) + 1
        key = c.digest([cs["c"], cs["w"], cs["s"]])
        st.seen.add(key)
        model = [int(x) for x in o.split()]
        impl = cs["d"][0] if cs["d"] else None
        if impl is not None:
            st.nontrivial.add(key)
        bad = None
        if impl != model:
            bad = "digit vector differs from the model (theorems wnaf_sum / wnaf_digit_bounds / wnaf_top hold for the model)"
        elif impl is not None:
            nb = 255 if cs["c"] == "g1" else 253
            bad = digits_ok(impl, cs["w"], nb, limbs_value(cs["s"][0]))
        if bad:
            mism += 1
            if mism <= 3:
                ctx.violation({"section": "wnaf", "seed": ctx.seed, "case": {k: cs[k] for k in ("c", "w", "s", "cls")},
                               "scalar": hex(limbs_value(cs["s"][0])), "impl_digits": impl, "model_digits": model, "why": bad},
                              "wNAF recoding of scalar %s (window %d, %s): %s" % (hex(limbs_value(cs["s"][0])), cs["w"], cs["c"], bad))
    st.evals += len(cases)
    st.traces += len(cases)
    ctx.notes["wnaf_distribution"] = dist
    ctx.cov["samples"].append({"wnaf": {"w": cases[5]["w"], "scalar": hex(limbs_value(cases[5]["s"][0])),
                                        "nonzero_digits": [(j, d) for j, d in enumerate(cases[5]["d"][0]) if d][:8]}})


def section_mexp(ctx, binp, runner, st):
    n = 240 if ctx.quick else 4000
    cases = harness_cases(ctx, binp, "mexp", n)
    if cases is None:
        return
    check_mexp_cases(ctx, binp, runner, st, cases)


def check_mexp_cases(ctx, binp, runner, st, cases):
    lines = []
    for cs in cases:
        r = ORDER[cs["c"]]
        lines.append("mexp %x %d %d %d %s %d %s" % (
            r, cs["w"], cs["nb"], len(cs["a"]), " ".join(a.lstrip("0") or "0" for a in cs["a"]), len(cs["s"]),
            " ".join("%d %s" % (len(s), " ".join(s)) for s in cs["s"])))
    outs = run_model(runner, lines)
    # digit vectors of every scalar
    dl = []
    for cs in cases:
        if cs["k"] == "mexp":
            for s in cs["s"]:
                dl.append("wnaf %d %d %s" % (cs["w"], len(s), " ".join(s)))
    douts = iter(run_model(runner, dl))
    dlog_lines = []
    dist = {"len": {}, "w": {}, "curve": {}, "pcls": {}, "scls": {}}
    for cs, o in zip(cases, outs):
        r = ORDER[cs["c"]]
        dist["len"][len(cs["a"])] = dist["len"].get(len(cs["a"]), 0) + 1
        dist["w"][cs["w"]] = dist["w"].get(cs["w"], 0) + 1
        dist["curve"][cs["c"]] = dist["curve"].get(cs["c"], 0) + 1
        for x in cs.get("pcls", []):
            dist["pcls"][x] = dist["pcls"].get(x, 0) + 1
        for x in cs.get("scls", []):
            dist["scls"][x] = dist["scls"].get(x, 0) + 1
        key = c.digest([cs["c"], cs["w"], cs["a"], cs["s"]])
        st.seen.add(key)
        if cs["res"] != "PANIC" and len(cs["a"]) > 0:
            st.nontrivial.add(key)
        a = [int(x, 16) for x in cs["a"]]
        s = [limbs_value(x) for x in cs["s"]]
        spec = sum(x * y for x, y in zip(a, s)) % r
        model = int(o, 16)
        repl = {"section": "mexp", "seed": ctx.seed, "case": {k: cs.get(k) for k in ("k", "c", "w", "a", "s", "nb")},
                "replay_line": "%s %d %d %s %s" % (cs["c"], cs["w"], len(a), " ".join(cs["a"]), " ".join("%x" % x for x in s))}
        if model != spec:
            # the model contradicts its own theorem: the tie (model <-> proof) is broken
            ctx.violation(dict(repl, model=hex(model), spec=hex(spec), theorem="multiexp_correct"),
                          "extracted model disagrees with sum s_i*a_i on a sample", no_input=True)
        if cs["res"] == "PANIC":
            ctx.violation(dict(repl, impl="PANIC"), "multiexp panicked on in-range scalars (curve %s, window %d, %d points)" % (cs["c"], cs["w"], len(a)))
            continue
        if not cs["naive_ok"]:
            ctx.violation(dict(repl, oracle="naive sum on the implementation"),
                          "multiexp differs from the sum of the individual scalar multiples (curve %s, window %d, scalars %s)" % (
                              cs["c"], cs["w"], [hex(x) for x in s]))
        if cs["k"] == "mexp" and not cs["trait_ok"]:
            ctx.violation(dict(repl, oracle="curve_arithmetic::multiexp vs naive sum"),
                          "curve_arithmetic::multiexp (default algorithm of %s) differs from the naive sum" % cs["c"])
        if cs["k"] == "mexp":
            for i, sl in enumerate(cs["s"]):
                md = [int(x) for x in next(douts).split()]
                impl = cs["d"][i] if cs["d"] is not None and i < len(cs["d"]) else None
                if impl != md:
                    ctx.violation(dict(repl, scalar_index=i, impl_digits=impl, model_digits=md),
                                  "wNAF digits of scalar %s (window %d) differ from the model" % (hex(s[i]), cs["w"]))
        dlog_lines.append((cs, "%s %x %s" % (cs["c"], model, cs["res"]), repl))
    oks = run_harness_stdin(binp, "dlog", [l for _, l, _ in dlog_lines])
    for (cs, l, repl), ok in zip(dlog_lines, oks):
        if ok.strip() != "1":
            ctx.violation(dict(repl, model_dlog=l.split()[1], impl_point=cs["res"]),
                          "multiexp result is not (sum s_i*a_i)*g predicted by the model (curve %s, window %d, %d points)" % (
                              cs["c"], cs["w"], len(cs["a"])))
    st.evals += len(cases)
    st.traces += len(cases)
    ctx.notes["mexp_distribution"] = dist
    for cs in cases[10:12]:
        ctx.cov["samples"].append({"mexp": {"curve": cs["c"], "w": cs["w"], "a": cs["a"], "s": cs["s"], "res": cs["res"]}})


def section_vcom(ctx, binp, runner, st):
    """Pedersen commitments (pedersen_commitment/key.rs): VecCommitmentKey with n = 1..6 bases a_i*g, h = ah*g, committing to
    k values for every k in 0..=n, and the scalar CommitmentKey.  Oracles: naive sum_{i<k} v_i*g_i + r*h with the curve's own
    add/mul (harness), and (sum_{i<k} v_i*a_i + r*ah)*g in the exponent (computed here, checked by the harness `dlog` mode);
    the exponent formula is the statement of vec_commit_correct (Props/C20.v)."""
    cases = harness_cases(ctx, binp, "vcom", 2 if ctx.quick else 8)
    if cases is None:
        return
    check_vcom_cases(ctx, binp, st, cases)


def check_vcom_cases(ctx, binp, st, cases):
    dist = {}
    rdist = {}
    dl = []
    for cs in cases:
        r = ORDER[cs["c"]]
        key = "%s n=%d k=%d" % (cs["k"], cs["n"], cs["kk"])
        dist[key] = dist.get(key, 0) + 1
        rdist[cs["rcls"]] = rdist.get(cs["rcls"], 0) + 1
        a = [int(x, 16) for x in cs["a"]]
        v = [int(x, 16) for x in cs["v"]]
        rr = int(cs["r"], 16)
        ah = int(cs["ah"], 16)
        expo = (sum(x * y for x, y in zip(v, a[:len(v)])) + rr * ah) % r
        what = "VecCommitmentKey::hide_worker (%d bases, %d values)" % (cs["n"], cs["kk"]) if cs["k"] == "vcom" else "CommitmentKey::hide"
        repl = {"section": "vcom", "seed": ctx.seed, "case": cs, "expected_dlog": "%x" % expo}
        if cs["res"] == "PANIC":
            ctx.violation(dict(repl, impl="PANIC"), "%s panicked (curve %s)" % (what, cs["c"]))
            continue
        if cs["res"] == "NONE":
            ctx.violation(dict(repl, impl="None"), "%s returned None although values.len() <= gs.len() (curve %s)" % (what, cs["c"]))
            continue
        if not cs["naive_ok"]:
            ctx.violation(dict(repl, oracle="naive sum on the implementation"),
                          "%s is not sum_{i<k} v_i*g_i + r*h (curve %s, randomness class %s)" % (what, cs["c"], cs["rcls"]))
        if not cs["hide_same"]:
            ctx.violation(repl, "%s: hide and hide_worker disagree (curve %s)" % (what, cs["c"]))
        if not cs["open_ok"]:
            ctx.violation(dict(repl, oracle="open on the naive commitment"),
                          "%s: open rejects the commitment sum v_i*g_i + r*h for the committed values and randomness (curve %s)" % (what, cs["c"]))
        if not cs["open_rej"]:
            ctx.violation(repl, "%s: open accepts the commitment for randomness + 1 (curve %s)" % (what, cs["c"]))
        if not cs["over_none"]:
            ctx.violation(repl, "VecCommitmentKey::hide_worker accepts more values than bases" if cs["k"] == "vcom"
                          else "CommitmentKey::hide of value 0 / randomness 0 is not the identity")
        dl.append((cs, "%s %x %s" % (cs["c"], expo, cs["res"]), repl, what))
        st.seen.add(c.digest(["vcom", cs["c"], cs["a"], cs["ah"], cs["v"], cs["r"]]))
    oks = run_harness_stdin(binp, "dlog", [l for _, l, _, _ in dl])
    for (cs, l, repl, what), ok in zip(dl, oks):
        if ok.strip() != "1":
            ctx.violation(dict(repl, oracle="in the exponent (vec_commit_correct)", impl_point=cs["res"]),
                          "%s is not (sum_{i<k} v_i*a_i + r*ah)*g for bases a_i*g, h = ah*g (curve %s, randomness class %s)" % (
                              what, cs["c"], cs["rcls"]))
    st.evals += len(cases)
    ctx.notes["vcom_cases_per_n_k"] = dist
    ctx.notes["vcom_randomness_classes"] = rdist


def section_enc(ctx, binp, runner, st):
    n = 40 if ctx.quick else 1500
    cases = harness_cases(ctx, binp, "enc", n)
    if cases is None:
        return
    dist = {}
    lines = []
    idx = []
    hashes = {}
    for i, cs in enumerate(cases):
        k = cs["k"]
        if k == "dec":
            tag = "%s/%s/%s" % (cs["c"], cs["kind"], "accepted" if cs["accepted"] else "rejected")
            dist[tag] = dist.get(tag, 0) + 1
            key = c.digest(["dec", cs["c"], cs["bytes"]])
            st.seen.add(key)
            if cs["accepted"]:
                st.nontrivial.add(key)
            why = None
            if cs["accepted"] and cs["reenc_same"] is False:
                why = "accepted a non-canonical encoding (re-encoding differs)"
            elif not cs["accepted"] and cs["reenc_same"] is False:
                why = "decoder panicked"
            elif cs["expect"] == "reject" and cs["accepted"]:
                why = "accepted an encoding of class %s" % cs["kind"]
            elif cs["expect"] == "accept" and not cs["accepted"]:
                why = "valid encoding rejected or decoded to a different point (%s)" % cs["kind"]
            if why:
                ctx.violation({"section": "enc", "seed": ctx.seed, "case": cs, "replay_line": "%s %s" % (cs["c"], cs["bytes"])},
                              "%s point decoding: %s: %s" % (cs["c"], why, cs["bytes"]))
        elif k == "sdec":
            lines.append("sdec %s %s" % (cs["c"], cs["bytes"]))
            idx.append(i)
        elif k == "sfb":
            lines.append("sfb bls %s" % cs["bytes"])
            idx.append((i, "bls"))
            lines.append("sfb ed %s" % cs["bytes"])
            idx.append((i, "ed"))
        elif k == "hash":
            dist["hash"] = dist.get("hash", 0) + 1
            st.seen.add(c.digest(["hash", cs["m"]]))
            st.nontrivial.add(c.digest(["hash", cs["m"]]))
            if not (cs["g1"] and cs["g2"] and cs["ed"]):
                ctx.violation({"section": "enc", "seed": ctx.seed, "case": cs},
                              "hash_to_group(%s) is not deterministic / not in the prime-order group / does not re-encode" % cs["m"])
            for h in ("h1", "h2", "h3"):
                prev = hashes.setdefault((h, cs[h]), cs["m"])
                if prev != cs["m"]:
                    ctx.violation({"section": "enc", "seed": ctx.seed, "m1": prev, "m2": cs["m"]}, "hash_to_group collision on distinct messages")
    outs = run_model(runner, lines)
    for ix, o in zip(idx, outs):
        if isinstance(ix, tuple):
            cs = cases[ix[0]]
            impl = cs[ix[1]]
            key = c.digest(["sfb", ix[1], cs["bytes"]])
            st.seen.add(key)
            st.nontrivial.add(key)
            dist["sfb"] = dist.get("sfb", 0) + 1
            if impl == "PANIC" or o == "None" or int(impl, 16) != int(o, 16):
                ctx.violation({"section": "enc", "seed": ctx.seed, "case": cs, "curve": ix[1], "model": o, "impl": impl},
                              "scalar_from_bytes(%s) on %s: implementation %s, model %s" % (cs["bytes"], ix[1], impl, o))
        else:
            cs = cases[ix]
            tag = "sdec/%s/%s" % (cs["c"], "accepted" if cs["r"] != "None" else "rejected")
            dist[tag] = dist.get(tag, 0) + 1
            key = c.digest(["sdec", cs["c"], cs["bytes"]])
            st.seen.add(key)
            if cs["r"] != "None":
                st.nontrivial.add(key)
            impl = None if cs["r"] in ("None", "PANIC") else int(cs["r"], 16)
            model = None if o == "None" else int(o, 16)
            why = None
            if cs["r"] == "PANIC":
                why = "decoder panicked"
            elif impl != model:
                why = "implementation %s, model %s (scalar_codec_canonical holds for the model)" % (cs["r"], o)
            elif impl is not None and not cs["reenc_same"]:
                why = "accepted but re-encoding differs"
            elif (impl is not None) != cs["below"]:
                why = "acceptance differs from value < group order"
            if why:
                ctx.violation({"section": "enc", "seed": ctx.seed, "case": cs, "replay_line": "s%s %s" % (cs["c"], cs["bytes"])},
                              "%s scalar decoding of %s: %s" % (cs["c"], cs["bytes"], why))
    st.evals += len(cases)
    st.traces += len(lines)
    ctx.notes["encoding_distribution"] = dist
    ctx.cov["samples"].append({"dec": {k: cases[3][k] for k in ("c", "kind", "bytes", "accepted")}})


def section_shamir(ctx, binp, runner, st):
    rounds = 1 if ctx.quick else 12
    cases = harness_cases(ctx, binp, "shamir", rounds)
    if cases is None:
        return
    lines = []
    meta = []
    dist = {"share": 0, "reveal>=t": 0, "reveal=t-1": 0, "nt": {}}
    for cs in cases:
        r = ORDER[cs["c"]]
        if cs.get("PANIC"):
            ctx.violation({"section": "shamir", "seed": ctx.seed, "case": cs}, "share panicked for n=%s t=%s" % (cs["n"], cs["t"]))
            continue
        if cs["k"] == "share":
            dist["share"] += 1
            dist["nt"]["%d/%d" % (cs["n"], cs["t"])] = dist["nt"].get("%d/%d" % (cs["n"], cs["t"]), 0) + 1
            lines.append("share %x %s %d %s %d %s" % (r, cs["secret"], len(cs["coeffs"]), " ".join(cs["coeffs"]), len(cs["xs"]), " ".join(cs["xs"])))
            meta.append(("share", cs))
            if len(cs["coeffs"]) != cs["t"] - 1 or not cs["top_nonzero"] or len(cs["shares"]) != cs["n"]:
                ctx.violation({"section": "shamir", "seed": ctx.seed, "case": cs}, "sharing polynomial does not have degree exactly t-1 (n=%d t=%d)" % (cs["n"], cs["t"]))
        else:
            b = int(cs["b"], 16)
            pairs = " ".join("%s %s" % (x, y) for x, y in zip(cs["xs"], cs["ys"]))
            lines.append("reveal %x %d %s" % (r, len(cs["xs"]), pairs))
            meta.append(("field", cs))
            gp = " ".join("%s %x" % (x, int(y, 16) * b % r) for x, y in zip(cs["xs"], cs["ys"]))
            lines.append("revealg %x %d %s" % (r, len(cs["xs"]), gp))
            meta.append(("group", cs))
    outs = run_model(runner, lines)
    dlog_lines = []
    for (kind, cs), o in zip(meta, outs):
        base = {"section": "shamir", "seed": ctx.seed, "case": cs}
        if kind == "share":
            key = c.digest(["share", cs])
            st.seen.add(key)
            st.nontrivial.add(key)
            if [int(x, 16) for x in o.split()] != [int(x, 16) for x in cs["shares"]]:
                ctx.violation(dict(base, model=o), "share(): shares differ from the model (n=%d t=%d points %s)" % (cs["n"], cs["t"], cs["xs"]))
        elif kind == "field":
            key = c.digest(["reveal", cs["c"], cs["xs"], cs["ys"]])
            st.seen.add(key)
            enough = cs["size"] >= cs["t"]
            if enough:
                st.nontrivial.add(key)
                dist["reveal>=t"] += 1
            else:
                dist["reveal=t-1"] += 1
            if cs["field"] == "PANIC" or int(o, 16) != int(cs["field"], 16):
                ctx.violation(dict(base, model=o), "reveal(): result differs from the model on points %s" % cs["xs"])
            if enough and not (cs["field_is_secret"] and cs["group_is_secret"]):
                ctx.violation(base, "%d >= t=%d shares do not reconstruct the secret (points %s)" % (cs["size"], cs["t"], cs["xs"]))
            if not enough and cs["size"] >= 1 and (cs["field_is_secret"] or cs["group_is_secret"]):
                ctx.violation(base, "t-1 = %d shares reconstruct the secret (threshold not effective; points %s)" % (cs["size"], cs["xs"]))
            if cs["group"] != "PANIC" and not cs["group_matches_field"]:
                ctx.violation(base, "reveal_in_group is not reveal in the exponent (points %s)" % cs["xs"])
        else:
            dlog_lines.append((cs, "%s %x %s" % (cs["c"], int(o, 16), cs["group"])))
    oks = run_harness_stdin(binp, "dlog", [l for _, l in dlog_lines])
    for (cs, l), ok in zip(dlog_lines, oks):
        if ok.strip() != "1":
            ctx.violation({"section": "shamir", "seed": ctx.seed, "case": cs, "model_dlog": l.split()[1]},
                          "reveal_in_group: result is not the point predicted by the model (points %s)" % cs["xs"])
    st.evals += len(cases)
    st.traces += len(lines)
    ctx.notes["shamir_distribution"] = dist


def section_kd(ctx, binp, runner, st):
    n = 3 if ctx.quick else 60
    cases = harness_cases(ctx, binp, "kd", n)
    if cases is None:
        return
    dist = {}
    lines = []
    meta = []
    for cs in cases:
        k = cs["k"]
        dist[k] = dist.get(k, 0) + 1
        if k in ("kdvec", "slip", "kgvec"):
            st.seen.add(c.digest(cs))
            st.nontrivial.add(c.digest(cs))
            if not cs["ok"]:
                ctx.violation({"section": "kd", "seed": ctx.seed, "case": cs}, "key derivation test vector of the repository fails: %s" % json.dumps(cs)[:200])
        elif k == "keygen":
            lines.append("keygen %s" % cs["okm"])
            meta.append(cs)
            if not cs["deterministic"]:
                ctx.violation({"section": "kd", "seed": ctx.seed, "case": cs}, "keygen_bls is not deterministic")
        elif k == "kd":
            args = " ".join(cs["a"])
            lines.append("path %d %s %s" % (cs["net"], cs["kind"], args))
            meta.append(cs)
            if not cs["deterministic"]:
                ctx.violation({"section": "kd", "seed": ctx.seed, "case": cs}, "key derivation getter %s is not deterministic" % cs["kind"])
            if cs.get("direct_agrees") is False:
                ctx.violation({"section": "kd", "seed": ctx.seed, "case": cs},
                              "%s disagrees with the direct wallet getter for the same (ip, identity, credential, tag) = %s" % (cs.get("via"), cs["a"]))
            if cs["public_matches"] is False:
                ctx.violation({"section": "kd", "seed": ctx.seed, "case": cs}, "public key getter does not match secret key * base point (%s)" % cs["kind"])
    # CredentialContext::get_cred_id_exponent: 1 / (prf_key(ip, id) + credential_index) along the model's PrfKey path
    ctxc = [cs for cs in cases if cs["k"] == "kdctx"]
    cpaths = run_model(runner, ["path %d prf %s %s" % (cs["net"], cs["a"][0], cs["a"][1]) for cs in ctxc])
    good = [(cs, pth) for cs, pth in zip(ctxc, cpaths) if pth != "None"]
    keys = run_harness_stdin(binp, "derive", ["%s bls %s" % (cs["seed"], pth) for cs, pth in good])
    kmap = {id(cs): k.strip() for (cs, _), k in zip(good, keys)}
    for cs, pth in zip(ctxc, cpaths):
        st.seen.add(c.digest(cs))
        if not cs["direct_agrees"]:
            ctx.violation({"section": "kd", "seed": ctx.seed, "case": cs},
                          "CredentialContext::get_cred_id_exponent disagrees with get_prf_key(ip, id).prf_exponent(credential) for %s" % cs["a"])
        if pth == "None":
            want = "Err"
        else:
            st.nontrivial.add(c.digest(cs))
            k = (int(kmap[id(cs)], 16) + int(cs["a"][2], 16)) % BLS_R
            want = "NoExp" if k == 0 else "%064x" % pow(k, -1, BLS_R)
        if cs["got"] != want:
            ctx.violation({"section": "kd", "seed": ctx.seed, "case": cs, "model_prf_path": pth, "expected": want},
                          "CredentialContext::get_cred_id_exponent%s is not 1/(prf key along the model path + credential index)" % cs["a"])
    outs = run_model(runner, lines)
    derive_lines = []
    derive_meta = []
    by_wallet = {}
    errs = 0
    for cs, o in zip(meta, outs):
        key = c.digest(cs)
        st.seen.add(key)
        if cs["k"] == "keygen":
            st.nontrivial.add(key)
            if o == "None" or cs["got"] in ("Err", "PANIC") or int(o, 16) != int(cs["got"], 16):
                ctx.violation({"section": "kd", "seed": ctx.seed, "case": cs, "model": o},
                              "keygen_bls: result is not OS2IP(okm) mod r computed by the model (ikm %s)" % cs["ikm"])
            continue
        if cs["got"] == "PANIC":
            ctx.violation({"section": "kd", "seed": ctx.seed, "case": cs}, "key derivation getter panicked")
            continue
        if o == "None":
            errs += 1
            if cs["got"] != "Err":
                ctx.violation({"section": "kd", "seed": ctx.seed, "case": cs},
                              "getter %s accepted an index >= 2^31 that checked_harden must reject (args %s)" % (cs["kind"], cs["a"]))
            continue
        st.nontrivial.add(key)
        if cs["got"] == "Err":
            ctx.violation({"section": "kd", "seed": ctx.seed, "case": cs, "model_path": o}, "getter %s rejected valid indices %s" % (cs["kind"], cs["a"]))
            continue
        mode = "raw" if cs["kind"] in ("sign", "vcsign", "vcbackup") else "bls"
        derive_lines.append("%s %s %s" % (cs["seed"], mode, o))
        derive_meta.append((cs, o))
        ident = (cs["net"], cs["kind"], tuple(cs["a"]))
        w = by_wallet.setdefault(cs["seed"], {})
        prev = w.get(cs["got"])
        if prev is not None and prev != ident:
            ctx.violation({"section": "kd", "seed": ctx.seed, "case": cs, "other": prev}, "distinct derivation inputs %s and %s give the same key" % (prev, ident))
        w[cs["got"]] = ident
    res = run_harness_stdin(binp, "derive", derive_lines)
    for (cs, path), got in zip(derive_meta, res):
        if got.strip() != cs["got"]:
            ctx.violation({"section": "kd", "seed": ctx.seed, "case": cs, "model_path": path, "derived_along_model_path": got.strip()},
                          "%s%s does not derive along the path of the model (%s)" % (cs.get("via", "getter " + cs["kind"]), cs["a"], path))
    dist["index>=2^31 rejected"] = errs
    st.evals += len(cases)
    st.traces += len(lines)
    ctx.notes["key_derivation_distribution"] = dist


def g1dec_compare(ctx, binp, runner, st, items):
    """items: list of (kind, hexbytes).  Model g1_decode vs Deserial for ArkGroup<G1>: accept/reject and coordinates."""
    outs = run_model(runner, ["g1dec %s" % b for _, b in items], par=16)
    impl = run_harness_stdin(binp, "g1xy", [b for _, b in items])

    def norm(o):
        o = o.strip()
        if o in ("None", "inf", "PANIC"):
            return o
        return tuple(int(x, 16) for x in o.split())
    dist = {}
    for (kind, b), m, i in zip(items, outs, impl):
        key = c.digest(["g1dec", b])
        st.seen.add(key)
        tag = "%s/%s" % (kind, "accepted" if norm(i) not in ("None", "PANIC") else "rejected")
        dist[tag] = dist.get(tag, 0) + 1
        if norm(i) not in ("None", "PANIC"):
            st.nontrivial.add(key)
        if norm(m) != norm(i):
            ctx.violation({"section": "g1dec", "seed": ctx.seed, "kind": kind, "bytes": b, "model": m, "impl": i,
                           "theorems": "g1_decode_encode / g1_decode_canonical / g1_decode_valid hold for the model"},
                          "G1 point decoding of %s (%s): implementation %s, model %s" % (b, kind, i.strip()[:40], m[:40]))
    st.evals += len(items)
    st.traces += len(items)
    return dist


def section_g1dec(ctx, binp, runner, st):
    cases = harness_cases(ctx, binp, "enc", 6 if ctx.quick else 60)
    if cases is None:
        return
    # the model's subgroup check costs ~17 s per point (extracted binary arithmetic): few of those
    expensive = {"valid": 1 if ctx.quick else 12, "sort-flag-flipped": 0 if ctx.quick else 8,
                 "wrong-subgroup": 0 if ctx.quick else 12, "random-x-in-subgroup": 0 if ctx.quick else 2,
                 "random-bytes": 0 if ctx.quick else 6}
    cheap_cap = 2 if ctx.quick else 12
    taken = {}
    items = [("canonical-infinity", "c0" + "00" * 47), ("infinity-with-sort-flag", "e0" + "00" * 47),
             ("infinity-flag-with-junk", "c0" + "00" * 46 + "01"), ("infinity-flag-with-junk", "ff" * 48),
             ("compression-flag-cleared", "40" + "00" * 47), ("all-zero", "00" * 48),
             ("coordinate>=p", "9a0111ea397fe69a4b1ba7b6434bacd764774b84f38512bf6730d2a0f6b0f6241eabfffeb153ffffb9feffffffffaaab"),
             ("x=p-1", "9a0111ea397fe69a4b1ba7b6434bacd764774b84f38512bf6730d2a0f6b0f6241eabfffeb153ffffb9feffffffffaaaa"),
             ("x=0", "80" + "00" * 47), ("x=0-sorted", "a0" + "00" * 47)]
    if not ctx.quick:
        items.append(("generator", "97f1d3a73197d7942695638c4fa9ac0fc3688c4f9774b905a14e3a3f171bac586c55e83ff97a1aeffb3af00adb22c6bb"))
    for cs in cases:
        if cs["k"] != "dec" or cs["c"] != "g1":
            continue
        kind = cs["kind"]
        if kind == "valid" and cs["bytes"].startswith("c0"):
            kind = "valid-infinity"
        cap = expensive.get(kind, cheap_cap)
        if taken.get(kind, 0) >= cap:
            continue
        taken[kind] = taken.get(kind, 0) + 1
        items.append((kind, cs["bytes"]))
    ctx.notes["g1_decode_distribution"] = g1dec_compare(ctx, binp, runner, st, items)


SECTIONS = [("wnaf", section_wnaf), ("mexp", section_mexp), ("vcom", section_vcom), ("enc", section_enc), ("shamir", section_shamir), ("kd", section_kd), ("g1dec", section_g1dec)]


def replay(ctx, binp, runner, st):
    rp = json.load(open(ctx.replay))["replay"]
    ctx.log("replaying", ctx.replay)
    if rp.get("section") == "mexp" and "replay_line" in rp:
        out = run_harness_stdin(binp, "one", [rp["replay_line"]])
        check_mexp_cases(ctx, binp, runner, st, [json.loads(out[0])])
        return
    if rp.get("section") == "enc" and "replay_line" in rp:
        out = json.loads(run_harness_stdin(binp, "decode", [rp["replay_line"]])[0])
        cs = rp["case"]
        if (out["accepted"] and out["reenc_same"] is False) or (cs.get("expect") == "reject" and out["accepted"]) or \
                (cs.get("expect") == "accept" and not out["accepted"]) or (cs.get("k") == "sdec" and out["accepted"] != cs["below"]):
            ctx.violation(rp, "replay: decoding of %s still violates the property" % cs["bytes"])
        return
    if rp.get("section") == "g1dec" and "bytes" in rp:
        g1dec_compare(ctx, binp, runner, st, [(rp.get("kind", "replay"), rp["bytes"])])
        return
    if "seed" in rp:
        ctx.seed = rp["seed"]
    for name, f in SECTIONS:
        if rp.get("section") in (None, name):
            f(ctx, binp, runner, st)


def run(ctx):
    ctx.assumptions += [
        "group = abelian group / module over its prime scalar field; curve arithmetic and point (de)compression are arkworks / curve25519-dalek code: exercised by the direct oracles, not modelled",
        "HMAC-SHA512, HKDF-SHA256, SHA-256 abstract: 'distinct outputs for distinct paths' is proved as 'distinct, prefix-free index lists' and observed on the implementation",
        "into_repr returns the 4 little-endian limbs of the reduced scalar (checked on every harness case)",
        "scalar_from_u64 is injective on u64 (2^64 < r): evaluation points of secret sharing are taken as field elements",
    ]
    ok, info = c.coq_prove(ctx)
    proof_broken = None
    if not ok:
        proof_broken = info
        ctx.log("proof obligations broken:", info["failed_file"], info["error"][-600:])
        c.coq_build(ctx, ["Crypto/Wnaf.vo", "Crypto/Shamir.vo", "Crypto/ScalarCodec.vo", "Crypto/Paths.vo", "Crypto/G1Decode.vo"])
    ok, binp = c.cargo_build(ctx, "c20")
    if not ok:
        ctx.violation({"layer": "harness build against /repo", "error": binp},
                      "harness no longer builds against the implementation", no_input=True)
        return
    ok, runner = c.extract_build(ctx, "ExtractC20.v", "driver_c20.ml", "c20")
    if not ok:
        ctx.violation({"layer": "model extraction", "error": runner}, "extraction of the C20 models failed", no_input=True)
        return
    st = Stats()
    # at most 3 reports per kind of violation (a systematic defect would otherwise flood the output)
    import re
    orig_violation = ctx.violation
    counts = {}

    def capped(replay, summary, no_input=False):
        kind = re.sub(r"0x[0-9a-f]+|[0-9a-f]{16,}|\d+|\[[^\]]*\]", "#", summary)[:70]
        counts[kind] = counts.get(kind, 0) + 1
        if counts[kind] <= 3:
            orig_violation(replay, summary, no_input)
    ctx.violation = capped
    if getattr(ctx, "replay", None):
        replay(ctx, binp, runner, st)
    else:
        for name, f in SECTIONS:
            t = ctx.t0
            try:
                f(ctx, binp, runner, st)
            except Exception as e:  # a broken tie in one section must not hide the others
                ctx.violation({"layer": "correspondence", "section": name, "exception": repr(e)},
                              "correspondence section %s failed: %r" % (name, e), no_input=True)
            ctx.log("section", name, "done")
    ctx.violation = orig_violation
    if any(v > 3 for v in counts.values()):
        ctx.notes["violations_beyond_cap"] = {k: v - 3 for k, v in counts.items() if v > 3}
    ctx.cov["evaluations"] += st.evals
    ctx.cov["traces_validated_against_impl"] += st.traces
    ctx.cov["distinct_nontrivial"] = len(st.nontrivial)
    ctx.cov["rule"] = (
        "wnaf: deterministic sweep of all-ones runs across every limb boundary for w=1..8 plus 0,1,r-1,2^k,2^k-1, then class-weighted scalars "
        "(zero, one, order-1, order-small, 2^k, 2^k-1, ones at limb boundaries, 0/MAX/random limb patterns, 2^k+-small, small, edge limbs, random) "
        "for G1 and ristretto, windows 1..14; mexp: lengths 0..12, identity/generator/repeated/negated points, windows 1..12, G1/G2/ristretto, "
        "Pedersen commitments; enc: valid + 9 malformed classes per curve, scalars at r-1,r,r+k,2^256-1, scalar_from_bytes lengths 0..52; "
        "shamir: all (n,t) 1<=t<=n<=6, all subsets of size >= t-1 in both orders; kd: repository vectors, all getters at indices 0,2^31-1,2^31,2^32-1,random; "
        "non-trivial = implementation returned a value on a non-error path (accepted / computed); distinct = distinct canonical case hash")
    if proof_broken:
        found = bool(ctx.violations)
        ctx.violation({"layer": "Coq proof obligations", "broken": proof_broken},
                      "theorem(s) of Props/C20.v no longer check (%s)" % proof_broken["failed_file"], no_input=not found)
    if ctx.tier == "thorough":
        ok, out = c.coqchk(ctx)
        if not ok:
            ctx.violation({"layer": "coqchk", "output": out[-2000:]}, "coqchk rejected Props/C20.vo", no_input=True)
