"""C12 — encrypted amounts: chunking theorem + correspondence, direct oracles on transfers."""
import hashlib
import json
import time
from . import common as c


def N(x):
    return "%s%%N" % x


def lst(xs):
    return "[" + "; ".join(N(x) for x in xs) + "]%list"


def model_exprs(cases):
    ex = []
    for cs in cases:
        if cs["k"] == "mask":
            ex.append("mask %s" % N(cs["s"]))
        elif cs["k"] == "to":
            ex.append("u64_to_chunks_checked %s %s" % (N(cs["s"]), N(cs["x"])))
        else:
            ex.append("chunks_to_u64_checked %s %s" % (N(cs["s"]), lst(cs["xs"])))
    return ex


def canon_model(case, term):
    if case["k"] == "mask":
        return str(term)
    if term == "None":
        return "PANIC"
    assert term[0] == "Some", term
    v = term[1]
    if case["k"] == "to":
        return [str(x) for x in v]
    return str(v)


# ---------------------------------------------------------------------- end-to-end tie of the composed transfer model
def _parse_bp(bhex):
    """serialised RangeProof -> flat [('p', hex48) | ('s', int)] in the order A S T1 T2 tx tx~ e~ (L R)* a b"""
    b = bytes.fromhex(bhex)
    pos = 0
    out = []
    for _ in range(4):
        out.append(("p", b[pos:pos + 48].hex())); pos += 48
    for _ in range(3):
        out.append(("s", int.from_bytes(b[pos:pos + 32], "big"))); pos += 32
    n = int.from_bytes(b[pos:pos + 4], "big"); pos += 4
    for _ in range(2 * n):
        out.append(("p", b[pos:pos + 48].hex())); pos += 48
    for _ in range(2):
        out.append(("s", int.from_bytes(b[pos:pos + 32], "big"))); pos += 32
    if pos != len(b):
        raise ValueError("range proof encoding")
    return out


def _zl(xs):
    return "[" + "; ".join("%d" % x for x in xs) + "]%Z"


def _zpairs(ps):
    return "[" + "; ".join("(%d, %d)" % (a, b) for a, b in ps) + "]%Z"


def e2e_check(ctx, binp, seen, nontrivial):
    """END-TO-END: the composed model (EncTransferFSExec.v, all challenges derived in the model) predicts ciphertexts,
    transcript frames, responses, range proofs and the verifier's verdict of real make_/verify_ runs."""
    ncase = 2 if ctx.quick else 18
    npert = 1 if ctx.quick else 4
    rc, out = c.run_bin(binp, ["e2e", ctx.seed, ncase, npert], timeout=3000)
    recs = [json.loads(l) for l in out.splitlines() if l.startswith("{")]
    gens = [r for r in recs if r.get("k") == "e2e-gens"]
    cases = [r for r in recs if r.get("k") == "e2e"]
    if rc != 0 or not gens or len(cases) != 2 * ncase:
        ctx.violation({"layer": "e2e harness", "output": out[-1500:]}, "end-to-end harness failed", no_input=True)
        return
    gens = gens[0]
    ids = {}

    def t(hexpt):
        return ids.setdefault(hexpt, len(ids) + 1)
    H = lambda x: int(x, 16)
    pre = ("From Coq Require Import ZArith NArith List. Import ListNotations.\n"
           "From CB Require Import Crypto.EncTransferFSExec.")
    # ---- evaluation 1: verifier-side transcript of every real (or perturbed) transfer, group elements as identifiers
    views = []      # (case index, view)
    fex = []
    for ci, cs in enumerate(cases):
        if cs["made"] is not True:
            ctx.violation({"case": cs["in"], "kind": cs["kind"], "made": cs["made"]},
                          "%s with amount <= balance was not produced (contradicts transfer_complete_fs / sec_to_pub_complete_fs)" % cs["kind"])
            continue
        for v in cs["views"]:
            if v["cm"] is None:
                continue
            b = bytes.fromhex(v["cm"])
            pos = [0]

            def pt():
                x = b[pos[0]:pos[0] + 48].hex(); pos[0] += 48; return t(x)

            def vec():
                n = int.from_bytes(b[pos[0]:pos[0] + 4], "big"); pos[0] += 4
                return [(pt(), pt()) for _ in range(n)]
            d, e = pt(), pt()
            m1, m2 = vec(), vec()
            pks = t(cs["in"]["pk_s"])
            pkr = pks if cs["kind"] == "sec2pub" else t(cs["in"]["pk_r"])
            bps = [[(t(x) if k == "p" else x) for k, x in _parse_bp(bh)] for bh in v["bps"]]
            fex.append("e2e_frames %s %d%%Z %d%%Z %d%%Z %d%%Z (%d, %d)%%Z %s %s (%d%%Z, %d%%Z, %s, %s) [%s]" % (
                "true" if cs["kind"] == "sec2pub" else "false", t(gens["g"]), t(gens["h"]), pks, pkr,
                t(v["S"][0]), t(v["S"][1]), _zpairs([(t(x[0]), t(x[1])) for x in v["A"]]), _zpairs([(t(x[0]), t(x[1])) for x in v["Sp"]]),
                d, e, _zpairs(m1), _zpairs(m2), "; ".join(_zl(bp) for bp in bps)))
            views.append((ci, v))
    fterms = c.coq_eval(ctx, "e2e_frames", pre, fex, shard=max(1, (len(fex) + 3) // 4))
    inv = {v: k for k, v in ids.items()}
    gcb = bytes.fromhex(gens["gc"])

    def hashes(last, lens, table, small):
        """sha3-256 of every prefix of `last` (token lengths `lens`), tokens expanded to the real bytes"""
        want = sorted(set(lens))
        out = {}
        raw = bytearray()
        for i, n in enumerate(last):
            if i in want:
                out[i] = hashlib.sha3_256(bytes(raw)).digest()
            if small:
                if n == 999:
                    raw += gcb
                elif n >= 1000:
                    raw += bytes.fromhex(table[n - 1000])
                else:
                    raw.append(n)
            elif n == 2 ** 259:
                raw += gcb
            elif n >= 2 ** 260:
                raw += bytes.fromhex(table[n - 2 ** 260])
            else:
                raw.append(n)
        out[len(last)] = hashlib.sha3_256(bytes(raw)).digest()
        return [out.get(l) for l in lens]
    tabs = {}
    nframes = 0
    for (ci, v), (last, lens, pref_ok) in zip(views, fterms):
        want = 21 if cases[ci]["kind"] == "transfer" else 11
        if len(lens) != want or len(set(lens)) != want or pref_ok != "true" or max(lens) != len(last):
            ctx.violation({"layer": "e2e_frames", "kind": cases[ci]["kind"], "frames": len(lens)}, "model transcript has an unexpected shape", no_input=True)
            return
        tabs[id(v)] = list(zip(lens, hashes(last, lens, inv, True)))
        nframes += want
        if v["bump"] == -1 and tabs[id(v)][0][1].hex() != v["challenge"]:
            ctx.violation({"case": cases[ci]["in"], "kind": cases[ci]["kind"], "layer": "first transcript frame"},
                          "sha3-256 of the model's first frame differs from the sigma challenge of the real %s" % cases[ci]["kind"])
    # ---- evaluation 2: the whole model from the secrets and the prover's random scalars
    def tab_lit(tab):
        return "[" + "; ".join("(%d, [%s])" % (l, "; ".join(str(x) for x in h)) for l, h in tab) + "]%N"

    def bpr(o):
        return " ".join(_zl([H(x) for x in o[k]]) for k in ("sL", "sR", "at", "st", "t1", "t2"))
    ex2 = []
    for ci, v in views:
        cs = cases[ci]
        i = cs["in"]
        honest = tabs[id(cs["views"][0])]
        sig = lambda l: _zpairs([(H(a), H(b)) for a, b in l])
        common = "%s %s %d%%Z %d%%Z %s %s %d%%Z" % (tab_lit(honest), tab_lit(tabs[id(v)]), H(gens["dg"]), H(gens["dh"]),
                                                  _zl([H(x) for x in gens["dGs"]]), _zl([H(x) for x in gens["dHs"]]), H(i["sk"]))
        if cs["kind"] == "transfer":
            ex2.append("e2e_transfer %s %d%%Z %s%%N %s%%N %d%%N %s %s %s %d%%Z %s %s %s %s (%d)%%Z" % (
                common, H(i["dpk_r"]), i["bal"], i["amt"], i["idx"], _zl([H(x) for x in i["bal_ks"]]),
                _zl([H(x) for x in cs["kA"]]), _zl([H(x) for x in cs["kS"]]), H(cs["common"]), sig(cs["sig1"]), sig(cs["sig2"]),
                bpr(cs["bpa"]), bpr(cs["bps"]), v["bump"]))
        else:
            ex2.append("e2e_sec2pub %s %s%%N %s%%N %d%%N %s %s %d%%Z %s %s %s (%d)%%Z" % (
                common, i["bal"], i["amt"], i["idx"], _zl([H(x) for x in i["bal_ks"]]),
                _zl([H(x) for x in cs["kS"]]), H(cs["common"]), sig(cs["sig1"]), sig(cs["sig2"]), bpr(cs["bps"]), v["bump"]))
    terms = c.coq_eval(ctx, "e2e_model", pre, ex2, shard=max(1, (len(ex2) + 11) // 12))
    # dlog -> real point: one harness call
    dl = set()
    parsed = []
    for (ci, v), term in zip(views, terms):
        if term == "None" or term[0] != "Some":
            parsed.append(None); continue
        val = term[1]
        if cases[ci]["kind"] == "transfer":
            cts, (ch, resp), bpa, bps, verdict, frames = val
            bpl = [bpa, bps]
        else:
            cts, (ch, resp), bps, verdict, frames = val
            bpl = [bps]
        parsed.append((cts, ch, resp, bpl, verdict, frames))
        dl.update(cts)
        for bp in bpl:
            dl.update(x for j, x in enumerate(bp) if j < 4 or 7 <= j < len(bp) - 2)
        dl.update(n - 2 ** 260 for n in frames[0] if n >= 2 ** 260)
    dl = sorted(dl)
    rc, eout = c.run_bin(binp, ["expand"], timeout=600, input="".join("%064x\n" % x for x in dl).encode())
    pts = eout.split()
    if rc != 0 or len(pts) != len(dl):
        ctx.violation({"layer": "e2e expand", "output": eout[-500:]}, "expand harness failed", no_input=True)
        return
    real = dict(zip(dl, pts))
    stats = {"views": len(views), "honest": 0, "perturbed": 0, "frames_hashed": 0, "mismatches": 0, "verdicts": {}}
    for (ci, v), pr in zip(views, parsed):
        cs = cases[ci]
        tag = {"kind": cs["kind"], "in": cs["in"], "bump": v["bump"], "seed": ctx.seed}
        key = c.digest(["e2e", cs["kind"], cs["in"]["bal"], cs["in"]["amt"], v["bump"], v["challenge"]]); seen.add(key); nontrivial.add(key)
        stats["honest" if v["bump"] == -1 else "perturbed"] += 1
        bad = []
        if pr is None:
            bad.append("model produced no transfer (None)")
        else:
            cts, ch, resp, bpl, verdict, frames = pr
            want_cts = [x for cph in v["Sp"] for x in cph] + ([x for cph in v["A"] for x in cph] if cs["kind"] == "transfer" else [])
            if [real[x] for x in cts] != want_cts:
                bad.append("ciphertext chunks (remaining / transfer amount)")
            if bytes(ch).hex() != v["challenge"]:
                bad.append("sigma challenge")
            if bytes(resp).hex() != v["resp"]:
                bad.append("sigma responses")
            for name, bp, bh in zip(["transfer-amount range proof", "remaining-amount range proof"] if cs["kind"] == "transfer" else ["remaining-amount range proof"], bpl, v["bps"]):
                rb = _parse_bp(bh)
                mine = [("p", real[x]) if (j < 4 or 7 <= j < len(bp) - 2) else ("s", x) for j, x in enumerate(bp)]
                if mine != rb:
                    diff = [j for j, (a, b) in enumerate(zip(mine, rb)) if a != b]
                    bad.append("%s (flat positions %s)" % (name, diff[:6]))
            tb = tabs[id(v)]
            last, lens, pref_ok = frames
            hs = hashes(last, lens, real, False) if max(lens) == len(last) else []
            stats["frames_hashed"] += len(hs)
            if pref_ok != "true" or list(lens) != [l for l, _ in tb] or hs != [h for _, h in tb]:
                bad.append("transcript frames (sha3 of the model's frames != the challenges it was run with)")
            stats["verdicts"][str((verdict, v["verdict"]))] = stats["verdicts"].get(str((verdict, v["verdict"])), 0) + 1
            if verdict != v["verdict"]:
                bad.append("verifier verdict: model %s, implementation %s (0 ok, 1 sigma, 2 first bulletproof, 3 second bulletproof)" % (verdict, v["verdict"]))
            if v["bump"] == -1 and (v["verdict"] != 0 or not v["verifies"]):
                bad.append("honest transfer rejected by the implementation")
            if v["bump"] != -1 and v["verdict"] == 0:
                bad.append("perturbed transfer accepted by the implementation")
        if bad:
            stats["mismatches"] += 1
            ctx.violation(dict(tag, mismatch=bad, layer="end-to-end composed model (EncTransferFSExec.e2e_*) vs make_/verify_ transfer data"),
                          "%s (balance %s, amount %s, perturbation %s): model and implementation differ in %s" % (
                              cs["kind"], cs["in"]["bal"], cs["in"]["amt"], v["bump"], "; ".join(bad)))
    ctx.cov["evaluations"] += len(views)
    ctx.cov["traces_validated_against_impl"] += len(views)
    ctx.notes["e2e"] = stats
    ctx.notes["e2e_distribution"] = {"cases_per_kind": ncase, "perturbations_per_transfer": npert,
        "balance_amount_classes": "(2^33+5, 2^32+7), whole balance, zero amount, u64::MAX balance, borrow from the high chunk, random",
        "perturbation": "+base point / +1 at a random flat position of remaining|transfer ciphertexts and both range proofs (sec2pub: also amount+1)"}
    if views:
        ctx.cov["samples"].append({"k": "e2e", "kind": cases[views[0][0]]["kind"], "bal": cases[views[0][0]]["in"]["bal"], "amt": cases[views[0][0]]["in"]["amt"],
                                   "frames": len(tabs[id(views[0][1])]), "verdict": views[0][1]["verdict"]})


def run(ctx):
    kf = c.load_known_findings()
    t0 = [time.time()]
    phases = {}
    ctx.notes["phase_s"] = phases

    def tick(name):
        phases[name] = round(time.time() - t0[0], 1)
        t0[0] = time.time()
    ctx.assumptions += [
        "group = prime-order module over its scalar field; curve arithmetic (arkworks) and SHA3 are not modelled",
        "rejection of altered transfers is relative to soundness of the sigma/range proofs (C07/C11) - exercised, not proved",
        "BSGS: multiples x*h, x below the table range, are pairwise distinct and to_bytes is canonical (Section hypotheses h_inj, geqb_spec)",
        "transfer_complete_fs: every challenge is derived in the model from the modelled transcript; the prover aborts only when a derived challenge to be inverted is zero (then a byte string hashed to 0 is exhibited)",
        "harness build uses overflow-checks=on (checked model); the wrapping build is covered by chunks_roundtrip_release",
    ]
    ok, info = c.coq_prove(ctx)
    proof_broken = None
    if not ok:
        proof_broken = info
        ctx.log("proof obligations broken:", info["failed_file"])

    okm, outm = c.coq_build(ctx, ["Crypto/ElGamalInst.vo", "Crypto/ValueChunks.vo", "Crypto/BsgsExec.vo", "Crypto/EncTransferExec.vo", "Crypto/EncTransferFSExec.vo"])
    if not okm:
        ctx.violation({"layer": "Coq model build", "output": outm[-1500:]}, "executable model files no longer build", no_input=True)
        return

    tick("coq")
    ok, binp = c.cargo_build(ctx, "c12")
    if not ok:
        ctx.violation({"layer": "harness build against /repo", "error": binp},
                      "harness no longer builds against the implementation", no_input=True)
        return
    tick("cargo")
    n = 400 if ctx.quick else 20000
    rc, out = c.run_bin(binp, ["chunks", ctx.seed, n], timeout=600)
    if rc != 0:
        ctx.violation({"layer": "harness run", "output": out[-2000:]}, "chunk harness crashed", no_input=True)
        return
    cases = [json.loads(l) for l in out.splitlines() if l.startswith("{")]
    terms = c.coq_eval(ctx, "chunks", "From Coq Require Import NArith List. Import ListNotations.\n"
                       "From CB Require Import Crypto.Chunks.", model_exprs(cases), shard=500)
    seen = set()
    nontrivial = set()
    mism = 0
    dist = {"to": 0, "from": 0, "mask": 0, "panic": 0}
    for cs, t in zip(cases, terms):
        dist[cs["k"]] += 1
        m = canon_model(cs, t)
        key = c.digest([cs["k"], cs["s"], cs.get("x"), cs.get("xs")])
        seen.add(key)
        if cs["r"] == "PANIC":
            dist["panic"] += 1
        else:
            nontrivial.add(key)
        if m != cs["r"]:
            mism += 1
            # decide with the property oracle: a well-formed round trip that fails is a violation of C12
            ctx.violation({"case": cs, "model": m, "impl": cs["r"],
                           "theorem": "chunks_roundtrip / chunks_to_u64_no_overflow (model proved, impl disagrees)"},
                          "chunking: implementation disagrees with the proved model on %s" % json.dumps(cs)[:200])
            if mism > 5:
                break
    # direct round-trip oracle on the implementation alone
    rt_fail = 0
    by_x = {}
    for cs in cases:
        if cs["k"] == "to" and cs["r"] != "PANIC":
            by_x[(cs["s"], tuple(cs["r"]))] = cs["x"]
    for cs in cases:
        if cs["k"] == "from":
            x = by_x.get((cs["s"], tuple(cs["xs"])))
            if x is not None and cs["r"] != x:
                rt_fail += 1
                ctx.violation({"case": cs, "expected": x}, "chunks_to_u64(u64_to_chunks(x)) != x for x=%s size=%s" % (x, cs["s"]))
    ctx.cov["evaluations"] += len(cases)
    ctx.cov["traces_validated_against_impl"] += len(cases)
    ctx.notes["chunk_distribution"] = dist
    ctx.cov["samples"] += [json.dumps(x)[:300] for x in cases[13:16]]


    tick("chunks")
    # ---- value_to_chunks / chunks_to_value on multi-limb scalars (theorems value_chunks_roundtrip, chunks_to_value_no_overflow)
    nv = 150 if ctx.quick else 6000
    rc, out = c.run_bin(binp, ["vchunks", ctx.seed, nv], timeout=900)
    if rc != 0:
        ctx.violation({"layer": "harness run", "output": out[-2000:]}, "vchunks harness crashed", no_input=True)
        return
    vcases = [json.loads(l) for l in out.splitlines() if l.startswith("{")]
    vskip = [v for v in vcases if v["k"] == "vskip"]
    vcases = [v for v in vcases if v["k"] in ("vto", "vfrom")]
    R = 0x73eda753299d7d483339d80809a1d80553bda402fffe5bfeffffffff00000001
    for v in vskip:
        if int(v["x"], 16) < R:
            ctx.violation({"case": v}, "a scalar below the field order was refused by deserialisation")
    vex = []
    for v in vcases:
        if v["k"] == "vto":
            vex.append("value_to_chunks_checked r_bls_N 4 %s %s" % (N(v["s"]), N(int(v["x"], 16))))
        else:
            vex.append("chunks_to_value_checked r_bls_N %s %s" % (N(v["s"]), lst([int(x, 16) for x in v["xs"]])))
    vterms = c.coq_eval(ctx, "vchunks", "From Coq Require Import NArith List. Import ListNotations.\n"
                        "From CB Require Import Crypto.Chunks Crypto.ValueChunks.", vex, shard=40)
    vdist = {"vto": 0, "vfrom": 0, "panic": 0, "roundtrips": 0, "skipped_not_scalar": len(vskip)}
    vm = 0
    enc = {}
    for v, t in zip(vcases, vterms):
        vdist[v["k"]] += 1
        if v["k"] == "vto":
            impl = "PANIC" if v["r"] == "PANIC" else [int(x, 16) for x in v["r"]]
            if impl != "PANIC":
                enc[(v["s"], tuple(impl))] = int(v["x"], 16)
        else:
            impl = "PANIC" if v["r"] == "PANIC" else int(v["r"], 16)
        model = "PANIC" if t == "None" else t[1]
        key = c.digest([v["k"], v["s"], v.get("x"), v.get("xs")])
        seen.add(key)
        if impl == "PANIC":
            vdist["panic"] += 1
        else:
            nontrivial.add(key)
        if model != impl:
            vm += 1
            if vm <= 5:
                ctx.violation({"case": v, "model": str(model)[:400], "impl": str(impl)[:400],
                               "theorem": "value_chunks_roundtrip / chunks_to_value_no_overflow (model proved, impl disagrees)"},
                              "value chunking: implementation disagrees with the proved model (size %s)" % v["s"])
    # direct round-trip oracle on the implementation alone
    for v in vcases:
        if v["k"] == "vfrom" and v["r"] != "PANIC":
            x = enc.get((v["s"], tuple(int(a, 16) for a in v["xs"])))
            if x is not None:
                vdist["roundtrips"] += 1
                if int(v["r"], 16) != x and vdist.setdefault("roundtrip_failures", 0) < 5:
                    vdist["roundtrip_failures"] += 1
                    ctx.violation({"case": v, "expected": "%x" % x}, "chunks_to_value(value_to_chunks(x)) != x (size %s)" % v["s"])
    ctx.cov["evaluations"] += len(vcases)
    ctx.cov["traces_validated_against_impl"] += len(vcases)
    ctx.notes["value_chunk_distribution"] = vdist
    ctx.cov["samples"] += [json.dumps(x)[:300] for x in vcases[40:42]]

    tick("vchunks")
    # ---- BabyStepGiantStep (theorem bsgs_discrete_log / bsgs_giant_steps_exact)
    nb = 28 if ctx.quick else 400
    rc, out = c.run_bin(binp, ["bsgs", ctx.seed, nb], timeout=240 if ctx.quick else 1800)
    ball = [json.loads(l) for l in out.splitlines() if l.startswith("{")]
    bcases = [b for b in ball if b["k"] == "bsgs"]
    if rc != 0 or not bcases:
        last = ball[-1] if ball else None
        hung = last is not None and last["k"] == "bsgs_try"
        ctx.violation({"layer": "harness run: c12 bsgs", "rc": rc, "case": last, "output": out[-300:]},
                      "BabyStepGiantStep::discrete_log(x*h) did not return within the time limit (rc=%s) for %s "
                      "(the loop runs until a table hit; theorem bsgs_discrete_log: it returns x after x/m + 1 lookups)"
                      % (rc, json.dumps(last)), no_input=not hung)
        return
    big = [b for b in bcases if b["m"] == 65536]
    keep = [b for b in bcases if b["m"] != 65536] + (big[:5] if ctx.quick else big)
    bex = []
    for b in keep:
        bex.append("bsgs_case %s %s" % (N(b["m"]), N(b["x"])))
        bex.append("bsgs_case_short %s %s" % (N(b["m"]), N(b["x"])) if b["m"] != 65536 or not ctx.quick else "DlFuel")
    nsmall = 2 * len([b for b in keep if b["m"] != 65536])
    bpre = "From Coq Require Import NArith.\nFrom CB Require Import Crypto.Bsgs Crypto.BsgsExec."
    bterms = c.coq_eval(ctx, "bsgs", bpre, bex[:nsmall], shard=30) + c.coq_eval(ctx, "bsgs_big", bpre, bex[nsmall:], shard=2)
    bdist = {}
    for i, b in enumerate(keep):
        bdist[str(b["m"])] = bdist.get(str(b["m"]), 0) + 1
        t, tshort = bterms[2 * i], bterms[2 * i + 1]
        model = str(t[1]) if isinstance(t, tuple) and t[0].endswith("DlFound") else "PANIC"
        key = c.digest(["bsgs", b["m"], b["x"]]); seen.add(key); nontrivial.add(key)
        if b["r"] != b["x"]:
            ctx.violation({"case": b}, "BabyStepGiantStep::discrete_log(%s*h) = %s with table size %s" % (b["x"], b["r"], b["m"]))
        elif model != b["r"] or (b.get("full") not in (None, b["r"])):
            ctx.violation({"case": b, "model": str(t)}, "BabyStepGiantStep: implementation disagrees with the proved model (m=%s x=%s)" % (b["m"], b["x"]))
        want_short = "DlFuel"
        if not (isinstance(tshort, str) and tshort.endswith(want_short)):
            ctx.violation({"case": b, "model_short": str(tshort), "theorem": "bsgs_giant_steps_exact"},
                          "model: discrete_log returned with fewer than x/m + 1 giant steps", no_input=True)
    # the cases not evaluated in the model are still checked by the direct oracle
    for b in bcases:
        if b["r"] != b["x"]:
            ctx.violation({"case": b}, "BabyStepGiantStep::discrete_log(%s*h) = %s with table size %s" % (b["x"], b["r"], b["m"]))
    ctx.cov["evaluations"] += len(bcases)
    ctx.cov["traces_validated_against_impl"] += len(keep)
    ctx.notes["bsgs_distribution"] = {"by_table_size_model_checked": bdist, "impl_cases": len(bcases)}
    ctx.cov["samples"].append(json.dumps(keep[-1]))

    tick("bsgs")
    # ---- aggregate + decrypt_amount with chunk carries (theorem aggregate_decrypt_amount_with_bsgs), larger table
    na = 13 if ctx.quick else 120
    rc, out = c.run_bin(binp, ["aggcarry", ctx.seed, na, 17 if ctx.quick else 20], timeout=3000)
    acases = [json.loads(l) for l in out.splitlines() if l.startswith("{")]
    if rc != 0 or len(acases) < na:
        ctx.violation({"layer": "harness run", "output": out[-2000:]}, "aggcarry harness crashed", no_input=True)
        return
    aterms = c.coq_eval(ctx, "aggcarry", "From Coq Require Import NArith List. Import ListNotations.\nFrom CB Require Import Crypto.Chunks.",
                        ["chunks_to_u64_checked 32%%N %s" % lst([(int(a["a"]) & 0xffffffff) + (int(a["b"]) & 0xffffffff),
                                                                  (int(a["a"]) >> 32) + (int(a["b"]) >> 32)]) for a in acases], shard=50)
    adist = {"lo_sum_2^32-1": 0, "lo_sum_2^32": 0, "lo_sum_2^33-2": 0, "other": 0, "overflow_panic": 0, "silent_wrap": 0}
    for a, t in zip(acases, aterms):
        x, y = int(a["a"]), int(a["b"])
        lo, hi = (x & 0xffffffff) + (y & 0xffffffff), (x >> 32) + (y >> 32)
        adist[{2**32 - 1: "lo_sum_2^32-1", 2**32: "lo_sum_2^32", 2**33 - 2: "lo_sum_2^33-2"}.get(lo, "other")] += 1
        key = c.digest(["agg", a["a"], a["b"]]); seen.add(key); nontrivial.add(key)
        model = "PANIC" if t == "None" else str(t[1])
        bad = None
        if x + y < 2**64 and a["dec"] != str(x + y):
            bad = "decrypt_amount(aggregate(enc x, enc y)) != x + y although x + y fits a u64 and the chunk sums are in the table range"
        elif model != a["dec"]:
            bad = "decrypt_amount disagrees with the model chunks_to_u64_checked on the decrypted chunk sums"
        if a["dec"] == "PANIC":
            adist["overflow_panic"] += 1
        elif x + y >= 2**64:
            adist["silent_wrap"] += 1
        if bad:
            ctx.violation({"case": a, "model": model}, "%s: %s" % (bad, json.dumps(a)))
    ctx.cov["evaluations"] += len(acases)
    ctx.cov["traces_validated_against_impl"] += len(acases)
    ctx.notes["aggregate_carry_distribution"] = adist

    tick("aggcarry")
    # ---- wiring of the statement built by the real gen_enc_trans_proof_info vs the model's (transfer_complete is about the latter)
    rc, out = c.run_bin(binp, ["wiring", ctx.seed, 0], timeout=300)
    wcases = [json.loads(l) for l in out.splitlines() if l.startswith("{")]
    if rc != 0 or len(wcases) < 4:
        ctx.violation({"layer": "harness run", "output": out[-2000:]}, "wiring harness crashed", no_input=True)
        return
    def zl(pairs):
        return "[" + "; ".join("(%d%%Z, %d%%Z)" % p for p in pairs) + "]"
    wex = []
    for w in wcases:
        a = [(7 + 2 * i, 8 + 2 * i) for i in range(w["na"])]
        b0 = 7 + 2 * w["na"]
        sp = [(b0 + 2 * i, b0 + 1 + 2 * i) for i in range(w["ns"])]
        wex.append("wiring 1%%Z 2%%Z 3%%Z 4%%Z (5%%Z, 6%%Z) %s %s" % (zl(a), zl(sp)))
    wterms = c.coq_eval(ctx, "wiring", "From Coq Require Import ZArith List. Import ListNotations.\nFrom CB Require Import Crypto.EncTransferExec.", wex, shard=10)
    for w, t in zip(wcases, wterms):
        head, e1, e2 = t
        if list(head) != w["head"] or [list(x) for x in e1] != w["e1"] or [list(x) for x in e2] != w["e2"]:
            ctx.violation({"case": w, "model": str(t)}, "gen_enc_trans_proof_info wires the statement differently from the model "
                          "(tokens: 1 g, 2 h, 3 pk_sender, 4 pk_receiver, 5/6 S, then A, then S')")
    ctx.cov["evaluations"] += len(wcases)
    ctx.cov["traces_validated_against_impl"] += len(wcases)
    ctx.notes["statement_wiring"] = {"shapes": [[w["na"], w["ns"]] for w in wcases]}

    tick("wiring")

    # ---- BabyStepGiantStep Serial/Deserial round trip (theorem bsgs_serial_roundtrip), sizes above the 2^16 preallocation cap
    rc, out = c.run_bin(binp, ["bsgsser", ctx.seed, 1 if ctx.quick else 2], timeout=600)
    sres = [json.loads(l) for l in out.splitlines() if l.startswith("{")]
    tabs = [x for x in sres if x["k"] == "bsgsser"]
    if rc != 0 or len(tabs) < 7:
        ctx.violation({"layer": "harness run: c12 bsgsser", "rc": rc, "output": out[-800:]}, "bsgsser harness crashed", no_input=True)
        return
    for x in sres:
        key = c.digest(["bsgsser", x]); seen.add(key); nontrivial.add(key)
        if x["k"] == "bsgsser":
            want_len = 8 + 48 + x["m"] * (48 + 8)
            if x.get("deserial") != "ok" or not x.get("equal") or x["len"] != want_len or x.get("len_again") != want_len:
                ctx.violation({"case": x, "expected_len": want_len, "theorem": "bsgs_serial_roundtrip"},
                              "BabyStepGiantStep: deserial(serial(table)) != table for table size m=%s: %s" % (x["m"], json.dumps(x)))
        elif x["k"] == "bsgsser_short" and x["accepted"]:
            ctx.violation({"case": x}, "BabyStepGiantStep::deserial accepted a stream one byte short (m=%s)" % x["m"])
        elif x["k"] == "bsgsser_dlog" and x["r"] != x["x"]:
            ctx.violation({"case": x}, "discrete_log on a deserialised table of size %s: %s*h -> %s" % (x["m"], x["x"], x["r"]))
    ctx.cov["evaluations"] += len(sres)
    ctx.notes["bsgs_serial"] = {"table_sizes": [x["m"] for x in tabs], "dlog_on_restored": len([x for x in sres if x["k"] == "bsgsser_dlog"])}
    tick("bsgsser")

    # ---- first challenge of real transfers = sha3-256 of the model frame (transcript initialisation + EncTrans public + commit message)
    rc, out = c.run_bin(binp, ["frames", ctx.seed, 0], timeout=600)
    fr = [json.loads(l) for l in out.splitlines() if l.startswith("{")]
    if rc != 0 or len(fr) < 4:
        ctx.violation({"layer": "harness run: c12 frames", "rc": rc, "output": out[-800:]}, "frames harness crashed", no_input=True)
        return
    fex, ftok = [], []
    for f in fr:
        tok = {}
        def t(hexpt, tok=tok):
            if hexpt not in tok:
                tok[hexpt] = len(tok) + 1
            return tok[hexpt]
        cm = f["cm"]
        if cm is None or not f["verifies"]:
            ctx.violation({"case": {k: f[k] for k in ("kind", "challenge", "verifies")}}, "honest %s did not verify / commit message not extractable" % f["kind"])
            fex.append("[]%list"); ftok.append(tok); continue
        b = bytes.fromhex(cm)
        pos = [0]
        def pt():
            v = b[pos[0]:pos[0] + 48].hex(); pos[0] += 48; return t(v)
        def vec():
            n = int.from_bytes(b[pos[0]:pos[0] + 4], "big"); pos[0] += 4
            return [(pt(), pt()) for _ in range(n)]
        g, h, pks, pkr = t(f["g"]), t(f["h"]), t(f["pk_s"]), t(f["pk_r"])
        S = (t(f["S"][0]), t(f["S"][1]))
        A = [(t(x[0]), t(x[1])) for x in f["A"]]
        Sp = [(t(x[0]), t(x[1])) for x in f["Sp"]]
        d, e = pt(), pt()
        m1, m2 = vec(), vec()
        zp = lambda l: "[" + "; ".join("(%d%%Z, %d%%Z)" % p for p in l) + "]"
        fex.append("frame_tokens %s %d%%Z %d%%Z %d%%Z %d%%Z (%d%%Z, %d%%Z) %s %s (%d%%Z, %d%%Z, %s, %s)" % (
            "true" if f["kind"] == "sec2pub" else "false", g, h, pks, pkr, S[0], S[1], zp(A), zp(Sp), d, e, zp(m1), zp(m2)))
        ftok.append(tok)
    fterms = c.coq_eval(ctx, "frames", "From Coq Require Import ZArith List. Import ListNotations.\nFrom CB Require Import Crypto.EncTransferExec.", fex, shard=2)
    fbad = 0
    for f, tok, term in zip(fr, ftok, fterms):
        inv = {v: k for k, v in tok.items()}
        raw = bytearray()
        for n in term:
            if n == 2 ** 259:
                raw += bytes.fromhex(f["gc"])
            elif n >= 2 ** 260:
                raw += bytes.fromhex(inv[n - 2 ** 260])
            else:
                raw.append(n)
        key = c.digest(["frame", f["kind"], f["challenge"]]); seen.add(key); nontrivial.add(key)
        if hashlib.sha3_256(bytes(raw)).hexdigest() != f["challenge"]:
            fbad += 1
            ctx.violation({"kind": f["kind"], "challenge": f["challenge"], "model_frame_len": len(raw), "pk_r": f["pk_r"], "pk_s": f["pk_s"],
                           "layer": "transcript initialisation (domain, ctx, receiver_pk, sender_pk / pk as whole Serial values) + EncTrans public + commit message"},
                          "%s: sha3-256 of the model frame differs from the challenge of the real proof - the implementation absorbs "
                          "something else than the model's transcript (e.g. a key component instead of the whole public key)" % f["kind"])
    ctx.cov["evaluations"] += len(fr)
    ctx.cov["traces_validated_against_impl"] += len(fr)
    ctx.notes["first_challenge_frames"] = {"proofs": len(fr), "mismatches": fbad}
    tick("frames")
    e2e_check(ctx, binp, seen, nontrivial)
    tick("e2e")

    # in-the-exponent correspondence for encrypt / aggregate / join / decrypt
    ne = 40 if ctx.quick else 1500
    rc, out = c.run_bin(binp, ["encgen", ctx.seed, ne], timeout=1200)
    encs = [json.loads(l) for l in out.splitlines() if l.startswith('{"decs"') or '"k":"enc"' in l]
    exprs = ["enc_case %d%%Z %s%%N %s%%N %s" % (int(e["sk"], 16), e["x"], e["y"],
             " ".join("%d%%Z" % int(k, 16) for k in e["rand"])) for e in encs]
    terms = c.coq_eval(ctx, "enc", "From Coq Require Import ZArith NArith List. Import ListNotations.\n"
                       "From CB Require Import Crypto.ElGamalInst.", exprs, shard=4 if ctx.quick else 100)
    lines = []
    meta = []
    for e, t in zip(encs, terms):
        if t == "None":
            ctx.violation({"case": e}, "model could not chunk the amount (u64_to_chunks_checked failed)")
            continue
        pts, decs = t[1]
        for hexpt, (a, b) in list(zip(e["pts"], pts)) + list(zip(e["decs"], decs)):
            lines.append(json.dumps({"pt": hexpt, "a": "%064x" % (a % R), "b": "%064x" % (b % R)}))
            meta.append(e)
        # decryptions must be pure multiples of h with the chunk sums / joined value as coefficient
        x, y = int(e["x"]), int(e["y"])
        want = [((x & 0xffffffff) + (y & 0xffffffff)) % R, ((x >> 32) + (y >> 32)) % R, (x + y) % R]
        got = [d[1] % R for d in decs]
        if [d[0] for d in decs] != [0, 0, 0] or got != want:
            ctx.violation({"case": e, "model_decs": decs}, "model: aggregate does not decrypt to the chunk-wise sums")
    rc, out = c.run_bin(binp, ["lincheck"], timeout=1200, input=("\n".join(lines) + "\n").encode())
    verdicts = [l for l in out.splitlines() if l in ("ok", "MISMATCH")]
    if len(verdicts) != len(lines):
        ctx.violation({"layer": "lincheck", "output": out[-1000:]}, "lincheck harness failed", no_input=True)
    bad = [i for i, v in enumerate(verdicts) if v != "ok"]
    for i in bad[:3]:
        ctx.violation({"case": meta[i], "line": json.loads(lines[i])},
                      "encrypt/aggregate/join: implementation point differs from the model's a*g+b*h")
    ctx.cov["evaluations"] += len(encs)
    ctx.cov["traces_validated_against_impl"] += len(encs)
    ctx.notes["enc_cases"] = {"cases": len(encs), "points_checked": len(lines), "mismatches": len(bad)}
    for e in encs:
        k = c.digest([e["x"], e["y"], e["sk"]])
        seen.add(k); nontrivial.add(k)
    if encs:
        ctx.cov["samples"].append({"k": "enc", "x": encs[0]["x"], "y": encs[0]["y"], "model_coeffs": str(terms[0])[:300]})

    tick("enc")
    # direct oracles on encryption / transfers
    m = 6 if ctx.quick else 150
    rc, out = c.run_bin(binp, ["oracle", ctx.seed, m], timeout=3000)
    if rc != 0:
        ctx.violation({"layer": "harness run", "output": out[-2000:]}, "oracle harness crashed", no_input=True)
        return
    res = [json.loads(l) for l in out.splitlines() if l.startswith("{")]
    kinds = {}
    known_ids = {f["id"] for f in kf["findings"] if f["property"] == "C12"}
    for r in res:
        kinds[r["k"]] = kinds.get(r["k"], 0) + 1
        key = c.digest(r)
        seen.add(key)
        nontrivial.add(key)
        if r["ok"]:
            continue
        # classify: the only listed finding is "index field not bound by verification"
        if r.get("made") and r.get("verifies") and "rejected" in r:
            notrej = [f for f, v in r["rejected"] if not v]
            cons_ok = True
            if r["k"] == "transfer":
                cons_ok = int(r["rem"]) + int(r["tr"]) == int(r["bal"]) and r["tr"] == r["amt"]
            else:
                cons_ok = int(r["rem"]) + int(r["amt"]) == int(r["bal"])
            if cons_ok and notrej == ["index"] and "KF-C12-1" in known_ids:
                ctx.known_finding("KF-C12-1", "altering only the `index` field of %s data is not rejected by verification"
                                  % ("encrypted-transfer/sec-to-pub"))
                continue
        ctx.violation({"case": r}, "encrypted-transfer oracle failed: %s" % json.dumps(r)[:300])
    tick("oracle")
    # crafted-prover attacks (a proof no honest prover produces must be rejected as well)
    rc, out = c.run_bin(binp, ["attack", ctx.seed, 0], timeout=1200)
    atk = [json.loads(l) for l in out.splitlines() if l.startswith("{")]
    if len(atk) < 5:
        ctx.violation({"layer": "attack harness", "output": out[-1500:]}, "attack harness failed", no_input=True)
    for a in atk:
        res.append(a)
        if not a["ok"]:
            ctx.violation({"case": a}, "forged transfer accepted: %s" % json.dumps(a)[:300])
    tick("attack")
    ctx.cov["evaluations"] += len(res)
    ctx.notes["attacks"] = atk
    ctx.notes["oracle_distribution"] = kinds
    ctx.cov["samples"] += [json.dumps(x)[:400] for x in res[:2]]
    ctx.cov["distinct_nontrivial"] = len(nontrivial)
    ctx.cov["rule"] = ("chunk cases: boundary-heavy u64 (0,1,2^k,2^k+-1,MAX,random) x all 7 chunk sizes, chunk lists from the encoder, "
                       "masked random lists up to 70 long and hostile unmasked lists; non-trivial = implementation returned a value (no panic); "
                       "value chunks: boundary scalars (0,1,2^64-1,2^64,2^128-1,2^192,r-1,r-2,random limbs) x all 7 sizes, encoder output, masked lists of odd lengths, oversized chunks; "
                       "bsgs: table sizes 1,2,16,65536, x around multiples of m; aggregate with chunk carries (low sums 2^32-1, 2^32, 2^33-2, totals around 2^64); "
                       "oracle cases: encrypt/decrypt, aggregate, transfer and sec-to-pub with balance/amount pairs incl. equal, zero, bal+1; "
                       "systematic perturbations: every key component, every ciphertext component, every proof component (swapped with another valid transfer's / bit-flipped); "
                       "crafted-prover forgeries (truncated response for transfers and sec-to-pub, overspend with bogus remaining range proof); "
                       "table Serial/Deserial round trips m in {1,2,16,1000,65536,65537,2^17}; sha3 tie of the first challenge of 6 real proofs; "
                       "end-to-end composed model: 2 (thorough 18) balance/amount classes x {transfer, sec-to-pub}, each honest + 1 (4) in-the-exponent perturbations, "
                       "all ciphertexts / 21 (11) transcript frames / responses / range-proof elements / verdict codes compared; "
                       "distinct = distinct canonical case hash")
    if proof_broken:
        found = bool(ctx.violations)
        ctx.violation({"layer": "Coq proof obligations", "broken": proof_broken},
                      "theorem(s) of Props/C12.v no longer check (%s)" % proof_broken["failed_file"], no_input=not found)
    if ctx.tier == "thorough":
        ok, out = c.coqchk(ctx)
        if not ok:
            ctx.violation({"layer": "coqchk", "output": out[-2000:]}, "coqchk rejected Props/C12.vo", no_input=True)
