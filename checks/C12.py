"""C12 — encrypted amounts: chunking theorem + correspondence, direct oracles on transfers."""
import json
from . import common as c


def N(x):
    return "%s%%N" % x


def lst(xs):
    return "[" + "; ".join(N(x) for x in xs) + "]%list"


def model_exprs(cases):
    ex = []
    for cs in cases:
        if cs["k"] == "mask":
            ex.append("mask %s" % N(cs["s"]))
        elif cs["k"] == "to":
            ex.append("u64_to_chunks_checked %s %s" % (N(cs["s"]), N(cs["x"])))
        else:
            ex.append("chunks_to_u64_checked %s %s" % (N(cs["s"]), lst(cs["xs"])))
    return ex


def canon_model(case, term):
    if case["k"] == "mask":
        return str(term)
    if term == "None":
        return "PANIC"
    assert term[0] == "Some", term
    v = term[1]
    if case["k"] == "to":
        return [str(x) for x in v]
    return str(v)


def run(ctx):
    kf = c.load_known_findings()
    ctx.assumptions += [
        "group = prime-order module over its scalar field; curve arithmetic (arkworks) and SHA3 are not modelled",
        "rejection of altered transfers is relative to soundness of the sigma/range proofs (C07/C11) - exercised, not proved",
        "harness build uses overflow-checks=on (checked model); the wrapping build is covered by chunks_roundtrip_release",
    ]
    ok, info = c.coq_prove(ctx)
    proof_broken = None
    if not ok:
        proof_broken = info
        ctx.log("proof obligations broken:", info["failed_file"])

    ok, binp = c.cargo_build(ctx, "c12")
    if not ok:
        ctx.violation({"layer": "harness build against /repo", "error": binp},
                      "harness no longer builds against the implementation", no_input=True)
        return
    n = 400 if ctx.quick else 20000
    rc, out = c.run_bin(binp, ["chunks", ctx.seed, n], timeout=600)
    if rc != 0:
        ctx.violation({"layer": "harness run", "output": out[-2000:]}, "chunk harness crashed", no_input=True)
        return
    cases = [json.loads(l) for l in out.splitlines() if l.startswith("{")]
    terms = c.coq_eval(ctx, "chunks", "From Coq Require Import NArith List. Import ListNotations.\n"
                       "From CB Require Import Crypto.Chunks.", model_exprs(cases), shard=500)
    seen = set()
    nontrivial = set()
    mism = 0
    dist = {"to": 0, "from": 0, "mask": 0, "panic": 0}
    for cs, t in zip(cases, terms):
        dist[cs["k"]] += 1
        m = canon_model(cs, t)
        key = c.digest([cs["k"], cs["s"], cs.get("x"), cs.get("xs")])
        seen.add(key)
        if cs["r"] == "PANIC":
            dist["panic"] += 1
        else:
            nontrivial.add(key)
        if m != cs["r"]:
            mism += 1
            # decide with the property oracle: a well-formed round trip that fails is a violation of C12
            ctx.violation({"case": cs, "model": m, "impl": cs["r"],
                           "theorem": "chunks_roundtrip / chunks_to_u64_no_overflow (model proved, impl disagrees)"},
                          "chunking: implementation disagrees with the proved model on %s" % json.dumps(cs)[:200])
            if mism > 5:
                break
    # direct round-trip oracle on the implementation alone
    rt_fail = 0
    by_x = {}
    for cs in cases:
        if cs["k"] == "to" and cs["r"] != "PANIC":
            by_x[(cs["s"], tuple(cs["r"]))] = cs["x"]
    for cs in cases:
        if cs["k"] == "from":
            x = by_x.get((cs["s"], tuple(cs["xs"])))
            if x is not None and cs["r"] != x:
                rt_fail += 1
                ctx.violation({"case": cs, "expected": x}, "chunks_to_u64(u64_to_chunks(x)) != x for x=%s size=%s" % (x, cs["s"]))
    ctx.cov["evaluations"] += len(cases)
    ctx.cov["traces_validated_against_impl"] += len(cases)
    ctx.notes["chunk_distribution"] = dist
    ctx.cov["samples"] += [json.dumps(x)[:300] for x in cases[13:16]]

    # in-the-exponent correspondence for encrypt / aggregate / join / decrypt
    ne = 40 if ctx.quick else 1500
    rc, out = c.run_bin(binp, ["encgen", ctx.seed, ne], timeout=1200)
    encs = [json.loads(l) for l in out.splitlines() if l.startswith('{"decs"') or '"k":"enc"' in l]
    R = 0x73eda753299d7d483339d80809a1d80553bda402fffe5bfeffffffff00000001
    exprs = ["enc_case %d%%Z %s%%N %s%%N %s" % (int(e["sk"], 16), e["x"], e["y"],
             " ".join("%d%%Z" % int(k, 16) for k in e["rand"])) for e in encs]
    terms = c.coq_eval(ctx, "enc", "From Coq Require Import ZArith NArith List. Import ListNotations.\n"
                       "From CB Require Import Crypto.ElGamalInst.", exprs, shard=100)
    lines = []
    meta = []
    for e, t in zip(encs, terms):
        if t == "None":
            ctx.violation({"case": e}, "model could not chunk the amount (u64_to_chunks_checked failed)")
            continue
        pts, decs = t[1]
        for hexpt, (a, b) in list(zip(e["pts"], pts)) + list(zip(e["decs"], decs)):
            lines.append(json.dumps({"pt": hexpt, "a": "%064x" % (a % R), "b": "%064x" % (b % R)}))
            meta.append(e)
        # decryptions must be pure multiples of h with the chunk sums / joined value as coefficient
        x, y = int(e["x"]), int(e["y"])
        want = [((x & 0xffffffff) + (y & 0xffffffff)) % R, ((x >> 32) + (y >> 32)) % R, (x + y) % R]
        got = [d[1] % R for d in decs]
        if [d[0] for d in decs] != [0, 0, 0] or got != want:
            ctx.violation({"case": e, "model_decs": decs}, "model: aggregate does not decrypt to the chunk-wise sums")
    rc, out = c.run_bin(binp, ["lincheck"], timeout=1200, input=("\n".join(lines) + "\n").encode())
    verdicts = [l for l in out.splitlines() if l in ("ok", "MISMATCH")]
    if len(verdicts) != len(lines):
        ctx.violation({"layer": "lincheck", "output": out[-1000:]}, "lincheck harness failed", no_input=True)
    bad = [i for i, v in enumerate(verdicts) if v != "ok"]
    for i in bad[:3]:
        ctx.violation({"case": meta[i], "line": json.loads(lines[i])},
                      "encrypt/aggregate/join: implementation point differs from the model's a*g+b*h")
    ctx.cov["evaluations"] += len(encs)
    ctx.cov["traces_validated_against_impl"] += len(encs)
    ctx.notes["enc_cases"] = {"cases": len(encs), "points_checked": len(lines), "mismatches": len(bad)}
    for e in encs:
        k = c.digest([e["x"], e["y"], e["sk"]])
        seen.add(k); nontrivial.add(k)
    if encs:
        ctx.cov["samples"].append({"k": "enc", "x": encs[0]["x"], "y": encs[0]["y"], "model_coeffs": str(terms[0])[:300]})

    # direct oracles on encryption / transfers
    m = 6 if ctx.quick else 150
    rc, out = c.run_bin(binp, ["oracle", ctx.seed, m], timeout=3000)
    if rc != 0:
        ctx.violation({"layer": "harness run", "output": out[-2000:]}, "oracle harness crashed", no_input=True)
        return
    res = [json.loads(l) for l in out.splitlines() if l.startswith("{")]
    kinds = {}
    known_ids = {f["id"] for f in kf["findings"] if f["property"] == "C12"}
    for r in res:
        kinds[r["k"]] = kinds.get(r["k"], 0) + 1
        key = c.digest(r)
        seen.add(key)
        nontrivial.add(key)
        if r["ok"]:
            continue
        # classify: the only listed finding is "index field not bound by verification"
        if r.get("made") and r.get("verifies") and "rejected" in r:
            notrej = [f for f, v in r["rejected"] if not v]
            cons_ok = True
            if r["k"] == "transfer":
                cons_ok = int(r["rem"]) + int(r["tr"]) == int(r["bal"]) and r["tr"] == r["amt"]
            else:
                cons_ok = int(r["rem"]) + int(r["amt"]) == int(r["bal"])
            if cons_ok and notrej == ["index"] and "KF-C12-1" in known_ids:
                ctx.known_finding("KF-C12-1", "altering only the `index` field of %s data is not rejected by verification"
                                  % ("encrypted-transfer/sec-to-pub"))
                continue
        ctx.violation({"case": r}, "encrypted-transfer oracle failed: %s" % json.dumps(r)[:300])
    # crafted-prover attacks (a proof no honest prover produces must be rejected as well)
    rc, out = c.run_bin(binp, ["attack", ctx.seed, 0], timeout=1200)
    atk = [json.loads(l) for l in out.splitlines() if l.startswith("{")]
    if len(atk) < 2:
        ctx.violation({"layer": "attack harness", "output": out[-1500:]}, "attack harness failed", no_input=True)
    for a in atk:
        res.append(a)
        if not a["ok"]:
            ctx.violation({"case": a}, "forged transfer accepted: %s" % json.dumps(a)[:300])
    ctx.cov["evaluations"] += len(res)
    ctx.notes["attacks"] = atk
    ctx.notes["oracle_distribution"] = kinds
    ctx.cov["samples"] += [json.dumps(x)[:400] for x in res[:2]]
    ctx.cov["distinct_nontrivial"] = len(nontrivial)
    ctx.cov["rule"] = ("chunk cases: boundary-heavy u64 (0,1,2^k,2^k+-1,MAX,random) x all 7 chunk sizes, chunk lists from the encoder, "
                       "masked random lists up to 70 long and hostile unmasked lists; non-trivial = implementation returned a value (no panic); "
                       "oracle cases: encrypt/decrypt, aggregate, transfer and sec-to-pub with balance/amount pairs incl. equal, zero, bal+1; "
                       "distinct = distinct canonical case hash")
    if proof_broken:
        found = bool(ctx.violations)
        ctx.violation({"layer": "Coq proof obligations", "broken": proof_broken},
                      "theorem(s) of Props/C12.v no longer check (%s)" % proof_broken["failed_file"], no_input=not found)
    if ctx.tier == "thorough":
        ok, out = c.coqchk(ctx)
        if not ok:
            ctx.violation({"layer": "coqchk", "output": out[-2000:]}, "coqchk rejected Props/C12.vo", no_input=True)
