"""C19 - consensus signature primitives: BLS aggregation + proof of possession, PS signatures, ECVRF.

Layers (see design/C19.md):
  1. Coq theorems (Props/C19.v) over the models Crypto/{Bls,Ps,Vrf}.v.
  2. Correspondence "in the exponent": the harness runs the *generic* Rust code of aggregate_sig and
     ps_sig on a toy pairing whose group elements are their own discrete logarithms and on BLS12-381;
     the Coq model instance ZrP (vm_compute) must reproduce every toy output exactly and every
     accept/reject decision of both instances.
  3. Relations predicted by the model that the harness evaluates with the real curve arithmetic
     (aggregate = sum sk_i*H(m_i), PS signature shape, PoP transcript structure, ECVRF equations with an
     independent implementation of the hash framings, RFC vectors).
  4. Direct oracles on the implementation alone (completeness, rejection under any other key / message /
     context / multiset, determinism, single-bit perturbations of serialized objects).
"""
import json
from . import common as c

R = 0x73eda753299d7d483339d80809a1d80553bda402fffe5bfeffffffff00000001

PRE = ("From Coq Require Import ZArith List. Import ListNotations.\n"
       "From CB Require Import Crypto.PairingAlg Crypto.Bls Crypto.Ps Crypto.C19Exec.\n"
       "Local Open Scope Z_scope.\n")


MAX_REPORTED = 4
_suppressed = [0]
_reported = {}


def report(ctx, replay, summary, **kw):
    """ctx.violation with a cap: per mode (bls, ps, pop, vrf, bits) the first MAX_REPORTED failing inputs are
    written out, the rest are counted."""
    mode = replay.get("mode", "?")
    if _reported.get(mode, 0) >= MAX_REPORTED:
        _suppressed[0] += 1
        return
    _reported[mode] = _reported.get(mode, 0) + 1
    ctx.violation(replay, summary, **kw)


def zl(xs):
    return "[" + "; ".join(str(x) for x in xs) + "]"


# ---------------------------------------------------------------------------------------- BLS
def hx(x):
    """hex literals: Coq converts them to Z in linear time (decimal literals are quadratic)"""
    return "0x%x" % int(x)


def bls_expr(cs):
    sigs = "; ".join("x_sign H1 (K %d%%nat) %d" % (k, m) for k, m in cs["signers"])
    plain = "; ".join("[" + "; ".join("(%d, K %d%%nat)" % (m, k) for m, k in l) + "]" for _, l in cs["lists"])
    hybrid = "; ".join("[" + "; ".join("(%d, %s)" % (m, zl("K %d%%nat" % k for k in ks)) for m, ks in gr) + "]"
                       for _, gr in cs["groups"])
    trusted = "; ".join("(%d, %s)" % (m, zl("K %d%%nat" % k for k in ks)) for _, m, ks in cs["tlists"])
    single = ""
    if cs["signers"]:
        k0, m0 = cs["signers"][0]
        single = "; ".join("x_verify H1 (K %d%%nat) %d (x_sign H1 (K %d%%nat) %d)" % (k, m, k0, m0)
                           for k, m in cs["singles"])
    return ("let H1 := x_tab %s in let K := x_key %s in "
            "let sg := x_agg [%s] in "
            "(sg, map (x_plain H1 sg) [%s], map (x_hybrid H1 sg) [%s], map (x_trusted H1 sg) [%s], ([%s] : list bool))"
            % (zl(hx(x) for x in cs["h"]), zl(hx(k) for k in cs["keys"]), sigs, plain, hybrid, trusted, single))


def bl(t):
    """Coq bool list -> python list"""
    return [x == "true" for x in t]


def bls_oracle(cs):
    """Expected decisions from the property text alone ("verifies exactly for its multiset"):
    per message, the claimed keys must sum to the signers' keys (sums, because keys of one message
    are interchangeable with any keys of equal sum - the only coincidences that exist when the
    message hashes are independent), plus the duplicate / emptiness rules of each variant."""
    keys = [int(k) for k in cs["keys"]]

    def sums(pairs):
        d = {}
        for m, k in pairs:
            d[m] = (d.get(m, 0) + keys[k]) % R
        return {m: v for m, v in d.items() if v != 0}
    honest = sums([(m, k) for k, m in cs["signers"]])
    plain = []
    for _, l in cs["lists"]:
        ms = [m for m, _ in l]
        plain.append(len(l) > 0 and len(set(ms)) == len(ms) and sums(l) == honest)
    hybrid = [sums([(m, k) for m, ks in gr for k in ks]) == honest for _, gr in cs["groups"]]
    trusted = [len(ks) > 0 and sums([(m, k) for k in ks]) == honest for _, m, ks in cs["tlists"]]
    single = []
    if cs["signers"]:
        k0, m0 = cs["signers"][0]
        single = [sums([(m, k)]) == sums([(m0, k0)]) for k, m in cs["singles"]]
    return plain, hybrid, trusted, single


def check_bls(ctx, cases, terms, stats):
    for idx, (cs, t) in enumerate(zip(cases, terms)):
        sg, plain, hybrid, trusted, single = t
        model = {"plain": bl(plain), "hybrid": bl(hybrid), "trusted": bl(trusted), "single": bl(single)}
        oplain, ohybrid, otrusted, osingle = bls_oracle(cs)
        oracle = {"plain": oplain, "hybrid": ohybrid, "trusted": otrusted, "single": osingle}
        labels = {"plain": [l for l, _ in cs["lists"]], "hybrid": [l for l, _ in cs["groups"]],
                  "trusted": [l for l, _, _ in cs["tlists"]], "single": ["own", "otherkey", "othermsg", "both", "signer1"]}
        rep = {"mode": "bls", "seed": ctx.seed, "index": idx, "n": cs["n"], "kind": cs["kind"],
               "dupmsg": cs["dupmsg"], "dupkey": cs["dupkey"], "secret_keys": cs["keys"], "message_lengths": cs["msglen"],
               "signers(key index, message index)": cs["signers"],
               "how": "harness/c19: `c19 bls <seed> <n>` regenerates the case at this index; ./check C19 --replay <this file>"}
        claims = {"plain": [l for _, l in cs["lists"]], "hybrid": [g for _, g in cs["groups"]],
                  "trusted": [[m, ks] for _, m, ks in cs["tlists"]], "single": cs["singles"]}
        stats["bls_sizes"][cs["n"]] = stats["bls_sizes"].get(cs["n"], 0) + 1
        if "panic" in cs["toy"] or "panic" in cs["real"]:
            report(ctx, dict(rep, toy=cs["toy"], real=cs["real"]), "BLS signing panicked")
            continue
        if int(cs["toy_sig"] or -1) != sg:
            report(ctx, dict(rep, model_sig=sg, toy_sig=cs["toy_sig"], layer="correspondence Bls.aggregate_list/sign vs aggregate_sig (toy pairing)"),
                          "aggregate signature differs from the model (n=%d)" % cs["n"])
        for inst in ("toy", "real"):
            r = cs[inst]
            if r["rel"] is not True:
                report(ctx, dict(rep, instance=inst, what="sig != sum sk_i*H(m_i)"), "aggregate is not the sum of the individual signatures (%s)" % inst)
            if r["agg_order"] is not True:
                report(ctx, dict(rep, instance=inst, what="aggregation order changes the aggregate"), "aggregation is order dependent (%s)" % inst)
            for kind in ("plain", "hybrid", "trusted", "single"):
                for j, (impl, mod, orc) in enumerate(zip(r[kind], model[kind], oracle[kind])):
                    stats["decisions"] += 1
                    stats["accepts" if impl is True else "rejects"] += 1
                    lab = labels[kind][j] if j < len(labels[kind]) else str(j)
                    if impl != mod:
                        report(ctx, dict(rep, instance=inst, variant=kind, claim=lab, claimed=claims[kind][j], impl=impl, model=mod, oracle=orc,
                                           theorem="aggregate_accept_iff / aggregate_variants_agree / duplicates_and_empty_rejected"),
                                      "BLS %s verification (%s, claim '%s', n=%d, %s messages): implementation says %s, proved model says %s"
                                      % (kind, inst, lab, cs["n"], cs["kind"], impl, mod))
                    elif impl != orc:
                        report(ctx, dict(rep, instance=inst, variant=kind, claim=lab, claimed=claims[kind][j], impl=impl, oracle=orc),
                                      "BLS %s verification (%s, claim '%s', n=%d): %s but the multiset oracle expects %s"
                                      % (kind, inst, lab, cs["n"], impl, orc))
        stats["nontrivial"].add(c.digest([cs["keys"][:3], cs["n"], cs["kind"], cs["toy"]["plain"], cs["toy"]["hybrid"]]))


# ---------------------------------------------------------------------------------------- PS
def inv(x):
    return pow(x % R, -1, R)


def ps_expr(cs):
    t = cs["toy"]
    gam, gamt = int(cs["gamma"]), int(cs["gamma_t"])
    ys = [int(y) for y in cs["ys"]]
    ms = [int(m) for m in cs["ms"]]
    vecs = [[int(x) for x in v] for _, v in cs["vectors"]]
    rk = 1
    if isinstance(t["known"], dict):
        rk = int(t["known"]["a"]) * inv(gam) % R
    ru = int(t["issued"]["a"]) * inv(gam) % R
    br, bt = int(t["blinded"]["r"]), int(t["blinded"]["t"])
    e = ("x_ps 0x%x 0x%x %s 0x%x %s 0x%x 0x%x 0x%x 0x%x 0x%x %s"
         % (gam, gamt, zl(hx(y) for y in ys), int(cs["x"]), zl(hx(m) for m in ms), rk, int(cs["mask"]), ru, br, bt,
            "[" + "; ".join(zl(hx(x) for x in v) for v in vecs) + "]"))
    return e


def check_ps(ctx, cases, terms, stats):
    for idx, (cs, t) in enumerate(zip(cases, terms)):
        known, cmm, iss, ret, bld, kv, rv, iv, bv = t
        rep = {"mode": "ps", "seed": ctx.seed, "index": idx, "key_len": cs["n"], "msg_len": cs["len"], "std_gens": cs["std_gens"],
               "g = gamma*G1": cs["gamma"], "g_tilda = gamma_t*G2": cs["gamma_t"], "ys": cs["ys"], "x": cs["x"], "messages": cs["ms"],
               "mask": cs["mask"], "vectors": cs["vectors"]}
        toy, real = cs["toy"], cs["real"]
        stats["ps_shapes"]["%d/%d" % (cs["n"], cs["len"])] = stats["ps_shapes"].get("%d/%d" % (cs["n"], cs["len"]), 0) + 1
        if toy.get("issued") == "PANIC" or real.get("issued") == "PANIC" or toy["known"] == "PANIC" or real["known"] == "PANIC":
            report(ctx, dict(rep, toy=toy, real=real), "PS signing panicked")
            continue

        def pt(j):
            return (int(j["a"]), int(j["b"]))
        # exact outputs on the toy pairing
        if known == "None":
            if toy["known"] != "ERR" or real["known"] != "ERR":
                report(ctx, dict(rep, what="sign_known_message should fail (message longer than key)"), "PS sign_known_message: length check differs from the model")
        else:
            if toy["known"] == "ERR" or pt(toy["known"]) != tuple(known[1]):
                report(ctx, dict(rep, model=known, impl=toy["known"], layer="Ps.ps_sign_known vs sign_known_message (toy)"), "PS known-message signature differs from the model")
        if int(toy["cmm"]) != cmm or pt(toy["issued"]) != tuple(iss) or pt(toy["retrieved"]) != tuple(ret) or pt(toy["blinded"]) != tuple(bld):
            report(ctx, dict(rep, model={"cmm": cmm, "iss": iss, "ret": ret, "bld": bld},
                               impl={k: toy[k] for k in ("cmm", "issued", "retrieved", "blinded")},
                               layer="Ps.ps_sign_unknown/ps_retrieve/ps_blind vs ps_sig (toy)"),
                          "PS blind issuance / retrieve / blind outputs differ from the model (key %d, msgs %d)" % (cs["n"], cs["len"]))
        names = [l for l, _ in cs["vectors"]]
        for inst, r in (("toy", toy), ("real", real)):
            for what, impl, mod in (("known_verify", r["known_verify"], bl(kv)), ("retrieved_verify", r["retrieved_verify"], bl(rv)),
                                    ("issued_verify", r["issued_verify"], bl(iv)), ("blinded_rel", r["blinded_rel"], bl(bv))):
                for j, (a, b) in enumerate(zip(impl, mod)):
                    stats["decisions"] += 1
                    stats["accepts" if a is True else "rejects"] += 1
                    if a != b:
                        report(ctx, dict(rep, instance=inst, what=what, vector=names[j], impl=a, model=b,
                                           theorem="ps_verify_iff / ps_blind_issue_valid_on_exactly / ps_blind_preserves_validity"),
                                      "PS %s on vector '%s' (%s, key %d, msgs %d): implementation %s, proved model %s"
                                      % (what, names[j], inst, cs["n"], cs["len"], a, b))
                if len(impl) != len(mod):
                    report(ctx, dict(rep, instance=inst, what=what, impl=impl, model=mod), "PS %s: result count differs" % what)
            if r.get("retrieved_rel") is not True or (r["known_rel"] not in (True, None)):
                report(ctx, dict(rep, instance=inst, known_rel=r["known_rel"], retrieved_rel=r.get("retrieved_rel")),
                              "PS signature does not have the shape (h, (x + sum m_i y_i) h) (%s)" % inst)
            # direct oracle: the unblinded signature verifies on the committed messages (when they fit) ...
            fits = cs["len"] <= cs["n"]
            if r["retrieved_verify"][0] is not fits:
                report(ctx, dict(rep, instance=inst, what="issue-unblind-verify on the committed vector", got=r["retrieved_verify"][0], expected=fits),
                              "PS blind issuance + unblinding: verification on the committed messages gives %s (%s)" % (r["retrieved_verify"][0], inst))
            # ... and on no vector that differs in a way the key cannot compensate
            for j, nm in enumerate(names):
                if nm in ("changed", "extended") and r["retrieved_verify"][j] is True:
                    report(ctx, dict(rep, instance=inst, vector=nm), "PS unblinded signature verifies on a different message vector ('%s', %s)" % (nm, inst))
        stats["nontrivial"].add(c.digest([cs["ys"], cs["ms"], cs["n"], toy["retrieved_verify"]]))


# ---------------------------------------------------------------------------------------- PoP / VRF / bits
def check_pop(ctx, cases, stats):
    for idx, cs in enumerate(cases):
        for inst in ("toy", "real"):
            r = cs[inst]
            rep = {"mode": "pop", "seed": ctx.seed, "index": idx, "instance": inst, "ctxlen": cs["ctxlen"], "result": r}
            stats["decisions"] += 3 + len(r.get("other_ctx", [])) + len(r.get("flipped", []))
            if "panic" in r:
                report(ctx, rep, "proof of possession: prove panicked")
                continue
            if r["ok"] is not True:
                report(ctx, rep, "proof of possession does not verify for its own key and context (%s)" % inst)
            if r["other_key"] is not False:
                report(ctx, rep, "proof of possession verifies under another key (%s)" % inst)
            if any(x is not False for x in r["other_ctx"]) or r["other_ctx2"] is not False:
                report(ctx, rep, "proof of possession verifies in another context (%s): the context is not bound" % inst)
            if r["rel"] is not True:
                report(ctx, dict(rep, layer="Bls.pop_prove structure: response = c*sk + w, challenge = RO(ctx, public, coeff, w*g2)"),
                              "proof of possession does not have the structure of the model (%s)" % inst)
            if any(x not in (False, "noparse", "same") for x in r["flipped"]):
                report(ctx, rep, "a bit-flipped proof of possession still verifies (%s)" % inst)
        stats["nontrivial"].add(c.digest([cs["sk"], cs["ctxlen"]]))


def check_vrf(ctx, cases, stats):
    for idx, cs in enumerate(cases):
        rep = {"mode": "vrf", "seed": ctx.seed, "index": idx, "case": {k: v for k, v in cs.items() if k not in ("flips",)}}
        if "panic" in cs:
            report(ctx, rep, "%s: panic" % cs["k"])
            continue
        stats["decisions"] += 1
        if cs["k"] == "dlog25519":
            if cs["ok"] is not True or cs["other_key"] is not False or cs["other_ctx"] is not False or cs["rel"] is not True \
                    or any(x not in (False, "noparse", "same") for x in cs["flipped"]):
                report(ctx, rep, "ed25519 dlog proof: completeness / binding / structure check failed: %s" % json.dumps(cs)[:200])
            continue
        stats["vrf_alpha"][cs["alphalen"]] = stats["vrf_alpha"].get(cs["alphalen"], 0) + 1
        if cs["label"].startswith("rfc") and cs.get("vector_ok") is not True:
            report(ctx, rep, "ECVRF test vector %s (draft-irtf-cfrg-vrf A.3) not reproduced" % cs["label"])
        if cs["ok"] is not True or cs["roundtrip"] is not True:
            report(ctx, rep, "ECVRF proof does not verify for its own key and message")
        if cs["deterministic"] is not True:
            report(ctx, rep, "ECVRF prove/to_hash is not deterministic")
        if cs["other_key"] is not False or any(x is not False for x in cs["other_msg"]):
            report(ctx, rep, "ECVRF proof verifies under another key or message")
        bad = [k for k, v in cs["rel"].items() if v is not True]
        if bad:
            report(ctx, dict(rep, failed_relations=bad,
                               layer="Vrf.vrf_prove / vrf_verify / vrf_to_hash structure (Gamma = x*H, U = k*B, V = k*H, c = hash(H,Gamma,U,V), beta = hash(8*Gamma))"),
                          "ECVRF: relation(s) %s predicted by the model do not hold" % bad)
        f = cs["flips"]
        stats["flip_parsed"] += f["proof_rejected"] + f["key_rejected"]
        stats["flip_noparse"] += f["proof_noparse"] + f["key_noparse"]
        if f["proof_accepted"] or f["key_accepted"]:
            report(ctx, dict(rep, flips=f), "ECVRF: a single-bit change of the proof/key is still accepted (bits %s / %s)" % (f["proof_accepted"], f["key_accepted"]))
        stats["nontrivial"].add(c.digest([cs["pk"], cs["alphalen"]]))


def check_bits(ctx, cases, stats):
    for idx, cs in enumerate(cases):
        rep = {"mode": "bits", "seed": ctx.seed, "index": idx, "case": cs}
        if cs["ok"] is not True or cs["ps_ok"] is not True:
            report(ctx, rep, "signature does not verify for its own key and message")
        b, p = cs["bls"], cs["ps"]
        for k in ("sig_accepted", "key_accepted", "msg_accepted"):
            if b.get(k):
                report(ctx, rep, "BLS: single-bit change (%s, bits %s) still accepted" % (k, b[k]))
        for k in ("sig_accepted", "msg_accepted"):
            if p.get(k):
                report(ctx, rep, "PS: single-bit change (%s, bits %s) still accepted" % (k, p[k]))
        for k in ("alg_sig", "alg_key"):
            if b.get(k) not in (False, None):
                report(ctx, rep, "BLS: perturbed %s still accepted" % k)
        stats["flip_parsed"] += b["sig_rejected"] + b["key_rejected"] + b["msg_rejected"] + p["sig_rejected"] + p["msg_rejected"]
        stats["flip_noparse"] += b["sig_noparse"] + b["key_noparse"] + p["sig_noparse"] + p["msg_noparse"]
        stats["decisions"] += 1
        stats["nontrivial"].add(c.digest(cs))


def check_keys(ctx, cases, stats, kf_ids):
    """Degenerate keys and points: the key-validity hypotheses of the theorems must be enforced by the
    deserializers (or verification must fail)."""
    for cs in cases:
        stats["decisions"] += 1
        k = cs["k"]
        if k == "vrfkey":
            stats["degenerate"]["vrf_small_order_key_encodings"] += 1
            if cs["parsed"]:
                acc = [f for f in cs.get("forgery", []) if f.get("accepted") is True]
                betas = sorted({f.get("beta") for f in acc})
                report(ctx, {"mode": "keys", "seed": ctx.seed, "public_key_bytes": cs["bytes"], "label": cs["label"],
                             "small_order": cs["small_order"], "verify_key": cs.get("verify_key"), "forged_proofs": cs.get("forgery"),
                             "theorem": "vrf_small_order_key_forgeable (the key-validity precondition of the VRF theorems is not enforced by Deserial for PublicKey)"},
                       "ECVRF: the small-order point %s (%s) deserializes as a public key; forged proofs (no secret key) accepted for %d/%d messages, %d distinct output(s)"
                       % (cs["bytes"], cs["label"], len(acc), len(cs.get("forgery", [])), len(betas)))
            else:
                stats["degenerate"]["rejected"] += 1
        elif k == "vrfdefault":
            # model = code on the identity key (theorem vrf_identity_key_forgeable); the key is not deserializable
            f = cs["forgery"]
            ctx.notes["vrf_identity_key (PublicKey::default())"] = {"verify_key": cs["verify_key"], "deserializable": cs["reparses"],
                                                                   "forged_proofs_accepted": [x.get("accepted") for x in f],
                                                                   "distinct_outputs": len({x.get("beta") for x in f})}
            if cs["reparses"] or cs["verify_key"]:
                report(ctx, {"mode": "keys", "seed": ctx.seed, "case": cs}, "ECVRF: the identity public key is reported valid (verify_key / deserialization)")
            if any(x.get("accepted") is not True for x in f) or len({x.get("beta") for x in f}) != 1:
                report(ctx, {"mode": "keys", "seed": ctx.seed, "case": cs, "layer": "Vrf.vrf_verify vs PublicKey::verify on the identity key (vrf_identity_key_forgeable)"},
                       "ECVRF: model predicts that the forged proof for the identity key is accepted with a constant output; the implementation disagrees")
        elif k == "vrfgamma":
            for t in cs["tries"]:
                stats["degenerate"]["small_order_gamma_proofs"] += 1
                if t.get("parsed") and t.get("accepted") != t["model"]:
                    report(ctx, {"mode": "keys", "seed": ctx.seed, "case": cs, "try": t, "theorem": "vrf_verify_iff"},
                           "ECVRF: proof with small-order Gamma: implementation %s, model equation %s" % (t.get("accepted"), t["model"]))
                elif t.get("parsed") and t.get("accepted") is not False:
                    report(ctx, {"mode": "keys", "seed": ctx.seed, "case": cs, "try": t},
                           "ECVRF: a proof with small-order Gamma (%s) verifies under an honest key" % cs["gamma"])
        elif k == "blsid":
            if cs.get("identity_sig_honest_key") is not False or cs.get("identity_key_honest_sig") not in (False, None):
                report(ctx, {"mode": "keys", "seed": ctx.seed, "case": cs}, "BLS: identity signature/key accepted against an honest key/signature")
            degenerate = cs["pk_identity_parsed"] and (True in (cs.get("identity_sig_identity_key") or []) or cs.get("aggregate_with_identity_pair") is True
                                                       or cs.get("trusted_keys_with_identity_key") is True)
            ctx.notes["bls_identity_key"] = {x: cs.get(x) for x in ("pk_identity_parsed", "sig_identity_parsed", "sk_zero_parsed", "identity_sig_identity_key",
                                                                     "aggregate_with_identity_pair", "trusted_keys_with_identity_key", "pop_for_identity_key")}
            if degenerate:
                what = ("the G2 identity deserializes as a BLS public key (sk = 0): identity signature verifies for every message %s, "
                        "(message, identity key) pair appended to a valid aggregate accepted=%s, trusted-keys with an extra identity key accepted=%s, PoP for sk=0 verifies=%s"
                        % (cs.get("identity_sig_identity_key"), cs.get("aggregate_with_identity_pair"), cs.get("trusted_keys_with_identity_key"), cs.get("pop_for_identity_key")))
                if "KF-C19-1" in kf_ids:
                    ctx.known_finding("KF-C19-1", what)
                else:
                    report(ctx, {"mode": "keys", "seed": ctx.seed, "case": cs}, "BLS: " + what)
        elif k == "subgroup":
            for grp, key in (("g1", "bls_sig_parsed"), ("g2", "bls_key_parsed")):
                for e in cs[grp]:
                    stats["degenerate"]["non_subgroup_points"] += 1
                    if e.get(key) or e.get("ps_sig_parsed"):
                        if e.get("bls_verify") is not False:
                            report(ctx, {"mode": "keys", "seed": ctx.seed, "point": e}, "BLS: a point outside the prime-order subgroup deserializes and verification does not fail")
                        else:
                            ctx.notes.setdefault("non_subgroup_points_parsed", []).append(e["bytes"])
                    else:
                        stats["degenerate"]["rejected"] += 1
        elif k == "psid":
            if cs["good"] is not True or any(v["accepted"] is not False for v in cs["variants"]):
                report(ctx, {"mode": "keys", "seed": ctx.seed, "case": cs}, "PS: a signature with an identity component is accepted (or the honest one rejected)")


# ---------------------------------------------------------------------------------------- ECVRF executable tie
import hashlib

ED_L = 2 ** 252 + 27742317777372353535851937790883648493
PRE_X = ("From Coq Require Import ZArith NArith List. Import ListNotations.\n"
         "From CB Require Import Crypto.VrfBytes Crypto.VrfBytesExec.\n"
         "Local Open Scope Z_scope.\n")


def nb(b):
    """bytes -> Coq [list N] literal"""
    if isinstance(b, str):
        b = bytes.fromhex(b)
    if len(b) == 0:
        return "(@nil N)"
    return "([" + "; ".join(str(x) for x in b) + "]%N)"


def vrfx_traces(cs):
    """the prove trace and every verify trace for which the implementation computed H, Gamma, U, V"""
    tr = [dict(cs["prove"], alpha=cs["alpha"], what="prove")]
    tr += [dict(t, what="verify:" + t["label"]) for t in cs["verifies"] if "H" in t]
    return tr


def vrfx_pass1_exprs(cs):
    skd = hashlib.sha512(bytes.fromhex(cs["sk"])).digest()
    return ["x_vrf_strings %s %s %s %d%%nat %s %s %s %s %s" % (nb(skd), nb(cs["pk"]), nb(t["alpha"]), len(t["cands"]), nb(t["H"]), nb(t["Gamma"]),
                                                            nb(t["U"]), nb(t["V"]), nb(t["G8"])) for t in vrfx_traces(cs)]


def vrfx_pass2_expr(ctx, cs, strings, idx):
    """check the framing strings against the implementation's candidates, hash them with a real SHA-512 and
    build the oracle instance on which the composite model functions run"""
    sk = bytes.fromhex(cs["sk"])
    sha = {sk: hashlib.sha512(sk).digest()}
    digests = {}
    for t, (x, h2cs, nonce_s, ch_s, beta_s) in zip(vrfx_traces(cs), strings):
        for i, st in enumerate(h2cs):
            d = hashlib.sha512(bytes(st)).digest()
            sha[bytes(st)] = d
            if d[:32].hex() != t["cands"][i]:
                report(ctx, {"mode": "vrfx", "seed": ctx.seed, "index": idx, "sk": cs["sk"], "alpha": t["alpha"], "ctr": i, "model_string": bytes(st).hex(),
                             "impl_candidate": t["cands"][i], "layer": "VrfBytes.h2c_input vs hash_to_curve"},
                       "ECVRF hash_to_curve: SHA-512 of the model's input string (ctr %d) is not the candidate the implementation decompressed" % i)
        for st in (nonce_s, ch_s, beta_s):
            sha[bytes(st)] = hashlib.sha512(bytes(st)).digest()
        if t["what"] == "prove":
            digests = {"nonce": sha[bytes(nonce_s)], "ch": sha[bytes(ch_s)], "beta": sha[bytes(beta_s)]}
    o = cs["ops"]
    tab_sha = "[" + "; ".join("(%s, %s)" % (nb(k), nb(v)) for k, v in sha.items()) + "]"
    tab_mul = "[" + "; ".join("(%s, %s, %s)" % (z, nb(pp), nb(r)) for z, pp, r in o["mul"]) + "]"
    tab_add = "[" + "; ".join("(%s, %s, %s)" % (nb(a), nb(b), nb(r)) for a, b, r in o["add"]) + "]"
    tab_neg = "[" + "; ".join("(%s, %s)" % (nb(a), nb(r)) for a, r in o["neg"]) + "]"
    tab_dec = "[" + "; ".join("(%s, %s)" % (nb(a), ("Some %s" % nb(r)) if r is not None else "(@None (list N))") for a, r in o["dec"]) + "]"
    ver = cs["verifies"]
    skd = hashlib.sha512(sk).digest()
    e = ("let o := mk_oracles %s %s %s %s %s %s in "
         "(x_vrf_prove o %s %s %s %s, x_vrf_pk o %s, [%s], [%s], map (fun v => match x_vrf_decode o v with Some p => x_vrf_encode p | None => None end) [%s], "
         "x_vrf_scalars %s %s %s, x_vrf_decode_pk o %s)"
         % (tab_sha, tab_mul, tab_add, tab_neg, tab_dec, nb(cs["B"]),
            nb(sk), nb(cs["pk"]), nb(cs["pk"]), nb(cs["alpha"]), nb(sk),
            "; ".join("x_vrf_verify o %s %s %s %s" % (nb(cs["pk"]), nb(cs["pk"]), nb(t["pi"]), nb(t["alpha"])) for t in ver),
            "; ".join("x_vrf_hash o %s" % nb(t["pi"]) for t in ver),
            "; ".join(nb(v["bytes"]) for v in cs["variants"]),
            nb(skd), nb(digests["nonce"]), nb(digests["ch"]), nb(cs["pk"])))
    return e, digests


def optbytes(t):
    """('Some', [..]) -> hex, 'None' -> None"""
    if t == "None":
        return None
    return bytes(t[1]).hex()


def check_vrfx(ctx, cs, term, digests, idx, stats):
    rep = {"mode": "vrfx", "seed": ctx.seed, "index": idx, "sk": cs["sk"], "alpha": cs["alpha"], "pk": cs["pk"], "pi": cs["pi"],
           "how": "harness/c19: `c19 vrfx <seed> <n>`; model: Crypto/VrfBytesExec.v on oracle tables filled by dalek + SHA-512"}
    prove, pk, ver, hashes, variants, scal, dpk = term
    stats["vrfx_alpha"][len(cs["alpha"]) // 2] = stats["vrfx_alpha"].get(len(cs["alpha"]) // 2, 0) + 1
    stats["vrfx_attempts"][len(cs["prove"]["cands"])] = stats["vrfx_attempts"].get(len(cs["prove"]["cands"]), 0) + 1
    if cs["prove"].get("gamma_is_xH") is not True:
        report(ctx, dict(rep, layer="Vrf.vrf_prove: Gamma = x*H"), "ECVRF: Gamma of the real proof is not x*H")
    if (bytes(pk[0]).hex(), bytes(pk[1]).hex()) != (cs["pk"], cs["pk"]):
        report(ctx, dict(rep, model=[bytes(pk[0]).hex(), bytes(pk[1]).hex()], layer="VrfBytes.pk_of_secret / expand_key / clamp vs PublicKey::from(&SecretKey)"),
               "ECVRF: public key derived by the model differs from the implementation")
    if optbytes(prove) != cs["pi"]:
        report(ctx, dict(rep, model=optbytes(prove), layer="VrfBytes.ecvrf_prove_bytes (framing, nonce, challenge truncation, response, encoding) vs SecretKey::prove + Serial"),
               "ECVRF: the proof bytes computed by the model differ from the implementation")
    if tuple(scal) != (int(cs["x"]), int(cs["kk"]), int(cs["c"]), int(cs["s"])):
        report(ctx, dict(rep, model=list(scal), impl=[cs["x"], cs["kk"], cs["c"], cs["s"]], layer="expand_key / nonce_of_digest / challenge_of_digest / response"),
               "ECVRF: scalars (x, k, c, s) computed by the model from real digests differ from the implementation")
    if int(cs["c"]) != int.from_bytes(digests["ch"][:16], "little") or cs["beta"] != digests["beta"].hex():
        report(ctx, dict(rep, layer="challenge_input / beta_input framing"), "ECVRF: SHA-512 of the model's transcript is not the real challenge / output")
    if dpk == "None" or bytes(dpk[1][0]).hex() != cs["pk"]:
        report(ctx, dict(rep, layer="VrfBytes.decode_pk"), "ECVRF: the model rejects the honest public key bytes")
    expect = {"honest": True}
    for t, mv, mh in zip(cs["verifies"], bl(ver), hashes):
        stats["decisions"] += 1
        impl = t.get("decision", False) if t["parsed"] else False
        stats["accepts" if impl is True else "rejects"] += 1
        if "H_impl" in t and "H" in t and t["H_impl"] != t["H"]:
            report(ctx, dict(rep, trace=t["label"]), "ECVRF: hash_to_curve of the implementation differs from the recorded candidate loop")
        if impl != mv:
            report(ctx, dict(rep, trace=t["label"], proof=t["pi"], message=t["alpha"], impl=impl, model=mv, theorem="ecvrf_verify_bytes_iff",
                             layer="VrfBytes.ecvrf_verify_bytes vs Deserial + PublicKey::verify"),
                   "ECVRF verify (%s): implementation %s, model %s" % (t["label"], impl, mv))
        elif impl is not expect.get(t["label"], False):
            report(ctx, dict(rep, trace=t["label"], proof=t["pi"], message=t["alpha"], impl=impl),
                   "ECVRF verify (%s): %s, expected %s" % (t["label"], impl, expect.get(t["label"], False)))
        if t["parsed"] and "beta" in t and optbytes(mh) != t["beta"]:
            report(ctx, dict(rep, trace=t["label"], model=optbytes(mh), impl=t["beta"], layer="VrfBytes.ecvrf_hash_bytes vs Proof::to_hash"),
                   "ECVRF to_hash (%s): model and implementation differ" % t["label"])
    for v, mv in zip(cs["variants"], variants):
        stats["decisions"] += 1
        stats["vrfx_variants"][v["label"]] = stats["vrfx_variants"].get(v["label"], [0, 0])
        stats["vrfx_variants"][v["label"]][0 if v["parsed"] else 1] += 1
        m = optbytes(mv)
        if (m is not None) != v["parsed"] or (v["parsed"] and m != v["reser"]):
            report(ctx, dict(rep, variant=v["label"], bytes=v["bytes"], impl_parsed=v["parsed"], impl_reserialized=v["reser"], model=m,
                             theorem="ecvrf_proof_codec", layer="VrfBytes.decode_proof / encode_proof vs Deserial / Serial for Proof"),
                   "ECVRF proof decoding ('%s'): implementation parsed=%s, model %s" % (v["label"], v["parsed"], "accepts" if m is not None else "rejects"))
        big = len(v["bytes"]) >= 160 and int.from_bytes(bytes.fromhex(v["bytes"])[48:80], "little") >= ED_L
        if big and v["parsed"]:
            report(ctx, dict(rep, variant=v["label"], bytes=v["bytes"]), "ECVRF: a proof with s >= l deserializes")
    stats["nontrivial"].add(c.digest([cs["pk"], cs["alpha"], "vrfx"]))


def run_vrfx(ctx, binp, stats, n):
    cases = run_mode(ctx, binp, ["vrfx", ctx.seed, n])
    if cases is None:
        return 0
    bad = [cs for cs in cases if "panic" in cs]
    for cs in bad:
        report(ctx, {"mode": "vrfx", "seed": ctx.seed, "case": cs}, "ECVRF prove panicked")
    cases = [cs for cs in cases if "panic" not in cs]
    try:
        ex1 = [vrfx_pass1_exprs(cs) for cs in cases]
        flat = [e for l in ex1 for e in l]
        t1 = c.coq_eval(ctx, "vrfx1", PRE_X, flat, max(1, (len(flat) + 5) // 6), 900)
        pos = 0
        ex2 = []
        for idx, (cs, l) in enumerate(zip(cases, ex1)):
            ex2.append(vrfx_pass2_expr(ctx, cs, t1[pos:pos + len(l)], idx))
            pos += len(l)
        t2 = c.coq_eval(ctx, "vrfx2", PRE_X, [e for e, _ in ex2], max(1, (len(ex2) + 5) // 6), 900)
        for idx, (cs, (e, dg), t) in enumerate(zip(cases, ex2, t2)):
            check_vrfx(ctx, cs, t, dg, idx, stats)
        if cases:
            cs = cases[-1]
            ctx.cov["samples"].append({"k": "vrfx", "alpha": cs["alpha"][:32], "attempts": len(cs["prove"]["cands"]), "model_proof_equals_impl": optbytes(t2[-1][0]) == cs["pi"],
                                       "verify": {t["label"]: t.get("decision") for t in cs["verifies"]}, "variants_parsed": {v["label"]: v["parsed"] for v in cs["variants"]}})
    except RuntimeError as e:
        ctx.violation({"layer": "model evaluation (VrfBytesExec.v)", "error": str(e)[-1500:]}, "the byte-level ECVRF model could not be evaluated", no_input=True)
    return len(cases)


# ---------------------------------------------------------------------------------------- has_duplicates / chunked key sums
def run_dups(ctx, binp, stats, n):
    cases = run_mode(ctx, binp, ["dups", ctx.seed, n])
    if cases is None:
        return 0
    ok = [cs for cs in cases if "panic" not in cs]
    for cs in cases:
        if "panic" in cs:
            report(ctx, {"mode": "dups", "seed": ctx.seed, "case": cs}, "has_duplicates panicked")
    try:
        terms = c.coq_eval(ctx, "dups", PRE_X, ["x_has_dup %s" % zl("0x" + d for d in cs["digests"]) for cs in ok], max(1, (len(ok) + 3) // 4), 600)
    except RuntimeError as e:
        ctx.violation({"layer": "model evaluation (DupSort.v)", "error": str(e)[-1500:]}, "the has_duplicates model could not be evaluated", no_input=True)
        return 0
    for idx, (cs, t) in enumerate(zip(ok, terms)):
        coded, ref = (x == "true" for x in t)
        oracle = len(set(cs["msgs"])) != len(cs["msgs"])
        stats["decisions"] += 1
        stats["dups"]["%d/%s" % (cs["len"], "dup" if oracle else "distinct")] = stats["dups"].get("%d/%s" % (cs["len"], "dup" if oracle else "distinct"), 0) + 1
        if [hashlib.sha512(bytes.fromhex(m)).hexdigest() for m in cs["msgs"]] != cs["digests"]:
            report(ctx, {"mode": "dups", "seed": ctx.seed, "index": idx, "case": cs}, "hash_message is not SHA-512 of the message")
        if not (cs["has_duplicates"] == coded == ref == oracle):
            report(ctx, {"mode": "dups", "seed": ctx.seed, "index": idx, "messages": cs["msgs"], "impl": cs["has_duplicates"], "model_sort_and_scan": coded,
                         "model_quadratic": ref, "oracle": oracle, "theorem": "has_duplicates_sort_and_scan_iff", "layer": "DupSort.has_duplicates_coded vs aggregate_sig::has_duplicates (hook)"},
                   "has_duplicates on %d messages: implementation %s, model %s, expected %s" % (cs["len"], cs["has_duplicates"], coded, oracle))
        stats["nontrivial"].add(c.digest([cs["msgs"], "dups"]))
    return len(ok)


PAR_SHAPES = [(1, 0), (7, 3), (64, 9), (150, 1)]


def run_par(ctx, binp, stats):
    runs = {}
    for th in ("1", "5"):
        rc, out = c.run_bin(binp, ["par", ctx.seed], timeout=1500, env={"RAYON_NUM_THREADS": th})
        if rc != 0:
            ctx.violation({"layer": "harness run", "args": ["par"], "output": out[-2000:]}, "harness crashed in mode par", no_input=True)
            return 0
        runs[th] = [json.loads(l) for l in out.splitlines() if l.startswith("{")]
    cases = runs["1"]
    for a, b in zip(runs["1"], runs["5"]):
        if (a["toy"], a["real"]) != (b["toy"], b["real"]):
            report(ctx, {"mode": "par", "seed": ctx.seed, "n": a["n"], "threads=1": [a["toy"], a["real"]], "threads=5": [b["toy"], b["real"]],
                         "theorem": "par_reduce_any_tree_is_sequential"}, "aggregate verification depends on the number of rayon threads (n=%d keys)" % a["n"])
    try:
        exprs = ["x_par %s 150%%nat %d%%nat %d%%nat %s" % (hx(R), n, d, zl(hx(k) for k in cs["sks"])) for cs in cases for (n, d) in PAR_SHAPES]
        terms = c.coq_eval(ctx, "par", PRE_X, exprs, max(1, (len(exprs) + 5) // 6), 900)
    except RuntimeError as e:
        ctx.violation({"layer": "model evaluation (ParReduce.v)", "error": str(e)[-1500:]}, "the chunked-reduction model could not be evaluated", no_input=True)
        return 0
    for i, cs in enumerate(cases):
        total = sum(int(k) for k in cs["sks"]) % R
        n = cs["n"]
        rep = {"mode": "par", "seed": ctx.seed, "n": n, "secret_keys": cs["sks"][:4] + ["..."], "theorem": "aggregate_verifiers_as_coded_agree / par_reduce_any_tree_is_sequential"}
        for j, (cn, d) in enumerate(PAR_SHAPES):
            t = terms[i * len(PAR_SHAPES) + j]
            if any(int(v) != total for v in t):
                report(ctx, dict(rep, chunk=cn, depth=d, model=list(t), expected=total), "chunked / tree / threshold key sums of the model differ from the plain sum (n=%d)" % n)
        if int(cs["toy"]["sig_exp"] or -1) != int(cs["h"]) * total % R:
            report(ctx, dict(rep, toy_sig=cs["toy"]["sig_exp"], expected=int(cs["h"]) * total % R), "toy aggregate is not H(m) * sum of the keys (n=%d)" % n)
        for inst in ("toy", "real"):
            r = cs[inst]
            if r is None:
                continue
            stats["decisions"] += 4
            want = {"trusted": n > 0, "trusted_bad": False, "hybrid": True, "hybrid_bad": False}
            for k, w in want.items():
                if r[k] is not w:
                    report(ctx, dict(rep, instance=inst, variant=k, impl=r[k], model=w),
                           "%s with %d keys (%s): implementation %s, model (key sum = sequential sum) %s" % (k, n, inst, r[k], w))
        stats["nontrivial"].add(c.digest([cs["sks"][:3], n, "par"]))
    ctx.notes["par_key_counts"] = [cs["n"] for cs in cases]
    ctx.notes["par_model_shapes(chunk size, split depth)"] = PAR_SHAPES
    return len(cases)


def run_mode(ctx, binp, args, timeout=1500):
    rc, out = c.run_bin(binp, args, timeout=timeout)
    if rc != 0:
        ctx.violation({"layer": "harness run", "args": args, "output": out[-2000:]}, "harness crashed in mode %s" % args[0], no_input=True)
        return None
    return [json.loads(l) for l in out.splitlines() if l.startswith("{")]


def run(ctx):
    if getattr(ctx, "replay", None):
        try:
            rp = json.load(open(ctx.replay))["replay"]
            if "seed" in rp:
                ctx.seed = int(rp["seed"])
                ctx.log("replaying with seed", ctx.seed, "mode", rp.get("mode"), "index", rp.get("index"))
        except Exception as e:  # noqa
            ctx.log("could not read replay file:", e)
    ctx.assumptions += [
        "prime-order groups with a bilinear non-degenerate pairing = one-dimensional modules over the scalar field (plaws, PairingAlg.v); arkworks / dalek curve arithmetic is not modelled",
        "hash functions (hash_to_group, SHA-512, SHA3 random oracle, ECVRF hash framings) are abstract in the theorems; unforgeability, pseudorandomness and full VRF uniqueness are computational (co-CDH, DL, ROM) and are NOT proved: PARTIAL",
        "the generic Rust code is tied to the model through a toy Pairing instance (exponent arithmetic) implemented in the harness, and through decisions/relations on BLS12-381",
        "has_duplicates: sort-and-scan is proved equivalent to 'two positions hold the same digest' for every correct sorting function; that sort_unstable sorts is assumed (tied through the hook verif_has_duplicates); distinct messages are assumed to have distinct digests",
        "ECVRF byte-level model: curve arithmetic, point (de)compression and SHA-512 are oracles (dalek / hashlib) in the executable tie and abstract (group laws, order 8l, decompress(compress P) = P) in the theorems",
        "rayon: fold/reduce is modelled as an arbitrary binary split tree over consecutive segments, each leaf folded from the identity (the documented semantics of rayon; rayon itself is not modelled)",
    ]
    ok, info = c.coq_prove(ctx)
    proof_broken = None
    if not ok:
        proof_broken = info
        ctx.log("proof obligations broken:", info["failed_file"], info["error"][-400:])
    okm, outm = c.coq_build(ctx, ["Crypto/Bls.vo", "Crypto/Ps.vo", "Crypto/Vrf.vo", "Crypto/C19Exec.vo", "Crypto/VrfBytesExec.vo"])
    if not okm:
        ctx.violation({"layer": "model build", "output": outm}, "the executable models no longer build", no_input=True)
        return

    ok, binp = c.cargo_build(ctx, "c19")
    import time
    for _ in range(10):
        # another property's harness crate being created at this moment makes the shared workspace unloadable
        if ok or "workspace member" not in binp or "harness/c19" in binp:
            break
        time.sleep(30)
        ok, binp = c.cargo_build(ctx, "c19")
    if not ok:
        ctx.violation({"layer": "harness build against /repo", "error": binp},
                      "harness no longer builds against the implementation", no_input=True)
        return
    q = ctx.quick
    stats = {"decisions": 0, "accepts": 0, "rejects": 0, "nontrivial": set(), "bls_sizes": {}, "ps_shapes": {}, "vrf_alpha": {},
             "flip_parsed": 0, "flip_noparse": 0, "vrfx_alpha": {}, "vrfx_attempts": {}, "vrfx_variants": {}, "dups": {},
             "degenerate": {"vrf_small_order_key_encodings": 0, "small_order_gamma_proofs": 0, "non_subgroup_points": 0, "rejected": 0}}
    n_eval = 0

    # --- BLS (small and large signer sets) and PS: harness runs, then ONE sharded model evaluation
    bls_small = run_mode(ctx, binp, ["bls", ctx.seed, 14 if q else 200]) or []
    bls_big = run_mode(ctx, binp, ["bls", ctx.seed + 1000, 3 if q else 18, 1]) or []
    ps_cases = run_mode(ctx, binp, ["ps", ctx.seed, 16 if q else 250]) or []
    bad = [cs for cs in ps_cases if not isinstance(cs["toy"].get("issued"), dict) or not isinstance(cs["toy"].get("blinded"), dict)]
    for cs in bad:
        ctx.violation({"mode": "ps", "seed": ctx.seed, "case": {k: cs[k] for k in ("n", "len", "std_gens")}, "toy": cs["toy"]}, "PS signing panicked")
    ps_cases = [cs for cs in ps_cases if cs not in bad]
    # big cases first so that the longest shards start first; 2 small cases per shard
    exprs = [bls_expr(cs) for cs in bls_big]
    small_exprs = [bls_expr(cs) for cs in bls_small] + [ps_expr(cs) for cs in ps_cases]
    try:
        import concurrent.futures
        with concurrent.futures.ThreadPoolExecutor(max_workers=2) as ex:
            f_big = ex.submit(c.coq_eval, ctx, "big", PRE, exprs, 1, 1500)
            f_small = ex.submit(c.coq_eval, ctx, "small", PRE, small_exprs, 3 if q else 12, 1500)
            t_big, t_small = f_big.result(), f_small.result()
        check_bls(ctx, bls_small, t_small[:len(bls_small)], stats)
        check_bls(ctx, bls_big, t_big, stats)
        check_ps(ctx, ps_cases, t_small[len(bls_small):], stats)
        n_eval += len(bls_small) + len(bls_big) + len(ps_cases)
        if len(bls_small) > 1:
            ctx.cov["samples"].append({k: bls_small[1][k] for k in ("k", "kind", "n", "dupmsg", "dupkey", "signers", "lists")} | {"real": bls_small[1]["real"]["plain"]})
        if len(ps_cases) > 4:
            ctx.cov["samples"].append({"k": "ps", "n": ps_cases[4]["n"], "len": ps_cases[4]["len"], "vectors": [v[0] for v in ps_cases[4]["vectors"]],
                                       "retrieved_verify": ps_cases[4]["real"]["retrieved_verify"]})
    except RuntimeError as e:
        ctx.violation({"layer": "model evaluation (Bls.v / Ps.v on ZrP)", "error": str(e)[-1500:]}, "the BLS/PS model could not be evaluated", no_input=True)

    # --- proofs of possession, VRF, bit perturbations (relations + direct oracles)
    cases = run_mode(ctx, binp, ["pop", ctx.seed, 12 if q else 300])
    if cases is not None:
        check_pop(ctx, cases, stats)
        n_eval += len(cases)
    cases = run_mode(ctx, binp, ["vrf", ctx.seed, 10 if q else 60, 64 if q else 640])
    if cases is not None:
        check_vrf(ctx, cases, stats)
        n_eval += len(cases)
        ctx.cov["samples"].append({k: cases[3][k] for k in ("k", "label", "alphalen", "ok", "other_key", "other_msg", "rel")})
    cases = run_mode(ctx, binp, ["bits", ctx.seed, 4 if q else 12, 48 if q else 768])
    if cases is not None:
        check_bits(ctx, cases, stats)
        n_eval += len(cases)

    # --- executable byte-level ECVRF model, has_duplicates as coded, chunked key sums around the 150-key threshold
    n_eval += run_vrfx(ctx, binp, stats, 5 if q else 60)
    n_eval += run_dups(ctx, binp, stats, 32 if q else 800)
    n_eval += run_par(ctx, binp, stats)
    ctx.notes["vrfx_alpha_lengths"] = stats["vrfx_alpha"]
    ctx.notes["vrfx_hash_to_curve_attempts"] = stats["vrfx_attempts"]
    ctx.notes["vrfx_proof_encoding_variants(parsed, rejected)"] = stats["vrfx_variants"]
    ctx.notes["has_duplicates_cases(len/kind)"] = stats["dups"]

    cases = run_mode(ctx, binp, ["keys", ctx.seed])
    if cases is not None:
        kf_ids = {f["id"] for f in c.load_known_findings()["findings"] if f["property"] == "C19"}
        check_keys(ctx, cases, stats, kf_ids)
        n_eval += len(cases)
    ctx.notes["degenerate_keys_and_points"] = stats["degenerate"]
    if _suppressed[0]:
        ctx.notes["further_failing_inputs_not_written_out"] = _suppressed[0]
        ctx.log("%d further failing inputs not written out" % _suppressed[0])
    ctx.cov["evaluations"] = n_eval
    ctx.cov["traces_validated_against_impl"] = n_eval
    ctx.cov["distinct_nontrivial"] = len(stats["nontrivial"])
    ctx.notes["decisions_compared"] = {"total": stats["decisions"], "accept": stats["accepts"], "reject": stats["rejects"]}
    ctx.notes["bls_signer_set_sizes"] = stats["bls_sizes"]
    ctx.notes["ps_key_len/msg_len"] = stats["ps_shapes"]
    ctx.notes["vrf_alpha_lengths"] = stats["vrf_alpha"]
    ctx.notes["bit_flips"] = {"parsed_and_rejected": stats["flip_parsed"], "failed_to_parse": stats["flip_noparse"]}
    ctx.cov["rule"] = ("BLS: signer sets of sizes 0,1,2,3,5,8 (+149,150,151), distinct or identical messages, optional duplicate message / duplicate key; "
                       "for each set the aggregate is checked against claimed lists (honest, permuted, one dropped, foreign key, duplicated message, swapped message, "
                       "extra pair, two messages exchanged, empty), hybrid groupings (honest, permuted, key in the wrong group, key dropped, singletons, message without keys, "
                       "extra key, empty) and trusted-key lists; PS: key lengths 0..12 x message lengths (shorter, equal, longer), standard and non-standard generators, "
                       "8 message vectors each; PoP: contexts of length 0,1,32,300; VRF: 3 draft test vectors + keys incl. all-zero/all-one bytes x alpha lengths 0,1,32,64,1000; "
                       "scalars are boundary heavy (0,1,r-1,small,random). non-trivial = distinct case hash (every case has at least one accepting and one rejecting decision)")
    if proof_broken:
        found = bool(ctx.violations)
        ctx.violation({"layer": "Coq proof obligations", "broken": proof_broken},
                      "theorem(s) of Props/C19.v no longer check (%s)" % proof_broken["failed_file"], no_input=not found)
    if ctx.tier == "thorough":
        ok, out = c.coqchk(ctx)
        if not ok:
            ctx.violation({"layer": "coqchk", "output": out[-2000:]}, "coqchk rejected Props/C19.vo", no_input=True)
