"""C18 - attribute statements and presentations: model theorems (Crypto/Statements*.v, Props/C18.v),
correspondence of encoding / truth / prover outcome with the Rust implementation, transcript ties,
and the perturbation oracles on id-level statements, web3id v0 and v1 presentations and request anchors."""
import hashlib
import json
from . import common as c

R_BLS = 0x73eda753299d7d483339d80809a1d80553bda402fffe5bfeffffffff00000001
W64 = 1 << 64
PRE = ("From Coq Require Import ZArith NArith List Bool String.\nImport ListNotations.\n"
       "From CB Require Import Crypto.Statements.\nLocal Open Scope N_scope.\n")

KF = {
    "KF-C18-1": "AttributeNotInSet with the EMPTY set is true for every value, but the prover returns None "
                "(inner-product argument refuses vectors of length 0)",
    "KF-C18-2": "AttributeInRange true in the scalar order but value-lower >= 2^64 or upper-value > 2^64 (string attributes of "
                "more than 8 bytes / mixed kinds): the honest proof is about the low 64-bit limb and does not verify",
    "KF-C18-3": "ProofVersion::Version1 range proofs run on a separate transcript: a V1 proof made only of range statements is "
                "not bound to challenge, global-context string or credential id",
    "KF-C18-4": "web3id v0 Presentation::verify: the metadata of an ACCOUNT credential proof (issuer, created, network, cred_id) "
                "is not absorbed in the transcript and not signed: altering it alone (public commitments unchanged) still verifies",
    "KF-C18-5": "web3id v0: `network` and credential type `ty` of a WEB3 credential are asserted by the holder only (linking signature), "
                "not covered by the issuer's signature: a holder can present its credential under another network / type set from the start",
}


# ------------------------------------------------------------------------------- Coq term builders
def nlist(bs):
    return "[" + ";".join(str(b) for b in bs) + "]"


def coq_attr(a):
    if a["t"] == "s":
        return "(AStr %s)" % nlist(bytes.fromhex(a["b"]))
    return "(%s %s)" % ("ANum" if a["t"] == "n" else "ATime", a["v"])


def coq_stmt(s):
    k = s["s"]
    if k == "reveal":
        return "(SReveal %d)" % s["tag"]
    if k == "range":
        return "(SRange %d %s %s)" % (s["tag"], coq_attr(s["lo"]["a"]), coq_attr(s["hi"]["a"]))
    if k == "value":
        return "(SValue %d %s)" % (s["tag"], coq_attr(s["v"]["a"]))
    return "(%s %d [%s])" % ("SInSet" if k == "in" else "SNotInSet", s["tag"], ";".join(coq_attr(x["a"]) for x in s["set"]))


def coq_alist(al):
    return "[" + ";".join("(%d, %s)" % (t, coq_attr(a)) for t, a, _ in al) + "]"


def hexlist(h):
    return nlist(bytes.fromhex(h))


def be(bs):
    return int.from_bytes(bytes(bs), "big")


# ------------------------------------------------------------------------------- direct truth on impl scalars
def impl_truth(al, s):
    fes = {t: int(fe, 16) for t, _, fe in al}
    if s["tag"] not in fes:
        return None
    v = fes[s["tag"]]
    k = s["s"]
    if k == "reveal":
        return True
    if k == "range":
        return int(s["lo"]["fe"], 16) <= v < int(s["hi"]["fe"], 16)
    if k == "value":
        return int(s["v"]["fe"], 16) == v
    m = any(int(x["fe"], 16) == v for x in s["set"])
    return m if k == "in" else (not m)


def gap_class(al, s):
    """Why can a TRUE statement not be proven by the implementation?  None = it can."""
    fes = {t: int(fe, 16) for t, _, fe in al}
    v = fes[s["tag"]]
    k = s["s"]
    if k == "range":
        lo, hi = int(s["lo"]["fe"], 16), int(s["hi"]["fe"], 16)
        if v - lo >= W64 or hi - v > W64:
            return "KF-C18-2"
    if k in ("in", "notin"):
        n = len(s["set"])
        p = 0 if n == 0 else 1 << (n - 1).bit_length()
        if p > 256:
            return "generators"
        if k == "notin" and n == 0:
            return "KF-C18-1"
    return None


class Acc:
    def __init__(self, ctx):
        self.ctx = ctx
        self.dist = {}
        self.seen = set()
        self.nontrivial = set()
        self.nviol = 0
        self.pert = 0
        self.pert_kinds = {}

    def count(self, k, n=1):
        self.dist[k] = self.dist.get(k, 0) + n

    def viol(self, obj, summary):
        self.nviol += 1
        if self.nviol <= 8:
            self.ctx.violation(obj, summary)

    def case(self, key, nontrivial):
        h = c.digest(key)
        self.seen.add(h)
        if nontrivial:
            self.nontrivial.add(h)

    def perturbation(self, name, rejected):
        self.pert += 1
        base = name.split("#")[0]
        self.pert_kinds[base] = self.pert_kinds.get(base, 0) + 1


class Batch:
    """Collect model expressions from all layers, evaluate them in ONE sharded coqc round
    (each coqc start costs seconds), then hand every layer its slice of the answers."""

    def __init__(self, ctx):
        self.ctx = ctx
        self.light, self.heavy = [], []

    def add(self, exprs, fn, heavy=False):
        (self.heavy if heavy else self.light).append((exprs, fn))

    def run(self):
        import math
        from concurrent.futures import ThreadPoolExecutor
        jobs = []
        for name, group, per in (("light", self.light, None), ("heavy", self.heavy, 2)):
            ex = [e for exprs, _ in group for e in exprs]
            if ex:
                jobs.append((name, group, ex, per or max(10, math.ceil(len(ex) / 12))))
        with ThreadPoolExecutor(max_workers=2) as pool:
            futs = [(group, pool.submit(c.coq_eval, self.ctx, name, PRE, ex, shard)) for name, group, ex, shard in jobs]
            for group, f in futs:
                terms = f.result()
                i = 0
                for exprs, fn in group:
                    fn(terms[i:i + len(exprs)])
                    i += len(exprs)


def harness_rows(ctx, binp, specs):
    """Run the harness modes concurrently; returns {mode: (rc, rows, out)}."""
    from concurrent.futures import ThreadPoolExecutor
    res = {}
    with ThreadPoolExecutor(max_workers=len(specs)) as pool:
        futs = {m: pool.submit(c.run_bin, binp, [m, ctx.seed, n], 6000) for m, n in specs}
        for m, f in futs.items():
            rc, out = f.result()
            res[m] = (rc, [json.loads(l) for l in out.splitlines() if l.startswith("{")], out)
    return res


def slim(d):
    d = dict(d)
    if "tie" in d:
        d["tie"] = "(omitted)"
    return d


# ------------------------------------------------------------------------------- encoding layer
def check_enc(ctx, acc, batch, rows):
    encs = [r for r in rows if r["k"] == "enc"]
    cmps = [r for r in rows if r["k"] == "cmp"]
    exprs = ["(wf_attr %s, encode_bytes %s, encode %s =? encode_closed %s)" % ((coq_attr(r["a"]),) * 4) for r in encs]
    exprs += ["(attr_cmp %s %s, enc_ltb %s %s, canon %s, canon %s)" % (coq_attr(r["a"]), coq_attr(r["b"]), coq_attr(r["a"]), coq_attr(r["b"]),
                                                                    coq_attr(r["a"]), coq_attr(r["b"])) for r in cmps]
    batch.add(exprs, lambda terms: judge_enc(ctx, acc, rows, encs, cmps, terms))
    ctx.cov["evaluations"] += len(rows)
    ctx.cov["traces_validated_against_impl"] += len(encs) + len(cmps)
    ctx.cov["samples"].append(json.dumps(encs[5])[:300])


def judge_enc(ctx, acc, rows, encs, cmps, terms):
    by_fe = {}
    for r, t in zip(encs, terms):
        wf, bs, closed = t
        acc.count("enc:" + r["a"]["t"])
        acc.case(["enc", r["a"]], True)
        want = bytes(bs).hex()
        for ty in ("web3", "kind"):
            got = r[ty]
            if got is None:
                if ty == "web3" or r["a"]["t"] == "s":
                    acc.viol({"case": r}, "attribute value refused by the %s constructor" % ty)
                continue
            if got == "PANIC":
                acc.viol({"case": r}, "to_field_element panicked")
                continue
            if wf != "true" or closed != "true":
                acc.viol({"case": r, "model": t}, "model: value not well formed / closed form differs")
            if got != want:
                acc.viol({"case": r, "model_bytes": want, "impl": got, "theorem": "encoding_closed_form"},
                         "to_field_element differs from the model encoding for %s" % json.dumps(r["a"]))
            if int(got, 16) >= R_BLS:
                acc.viol({"case": r}, "field element not reduced")
        # direct injectivity oracle on the implementation: equal scalars <=> equal canonical forms
        fe = r["web3"]
        if isinstance(fe, str) and fe != "PANIC":
            by_fe.setdefault(fe, []).append(r["a"])
    for fe, vals in by_fe.items():
        kinds = {}
        for a in vals:
            kinds.setdefault(a["t"], set()).add(json.dumps(a, sort_keys=True))
        for k, s in kinds.items():
            if len(s) > 1:
                acc.viol({"values": sorted(s), "fe": fe, "theorem": "encoding_injective"},
                         "two distinct %s attribute values have the same field element" % k)
    for r in rows:
        if r["k"] == "toolong" and r["accepted"]:
            acc.viol({"case": r}, "AttributeKind::try_new accepted a string of %d bytes" % r["len"])
    for r, t in zip(cmps, terms[len(encs):]):
        cmpm, ltb, ca, cb = t
        acc.count("cmp")
        acc.case(["cmp", r["a"], r["b"]], True)
        want = {"Lt": -1, "Eq": 0, "Gt": 1}[cmpm]
        if want != r["ord"]:
            acc.viol({"case": r, "model": cmpm}, "derived Ord differs from the model attr_cmp")
        fa, fb = int(r["fa"], 16), int(r["fb"], 16)
        if (fa < fb) != (ltb == "true"):
            acc.viol({"case": r, "model": ltb}, "scalar order differs from the model")
        if (fa == fb) != (ca == cb):
            acc.viol({"case": r, "canon": [str(ca), str(cb)], "theorem": "encoding_collisions_exact"},
                     "scalar collision not characterised by canon")
        # theorem encoding_order_preserving, evaluated on the implementation's own outputs
        a, b = r["a"], r["b"]
        if a["t"] == b["t"] and (a["t"] != "s" or len(a["b"]) == len(b["b"])):
            if (fa < fb) != (r["ord"] < 0):
                acc.viol({"case": r, "theorem": "encoding_order_preserving"},
                         "scalar order and attribute order disagree within one value class")


# ------------------------------------------------------------------------------- statements (id level)
CONTEXT_PERTS = ("challenge_bitflip", "challenge_extended", "challenge_truncated", "global_genesis_string", "cred_id")


def check_stmt_rows(ctx, acc, batch, rows, kf_ids, flow):
    exprs = []
    for d in rows:
        al, ss = coq_alist(d["al"]), "[" + ";".join(coq_stmt(s) for s in d["ss"]) + "]"
        exprs.append("(let al := %s in let ss := %s in (map (outcome_of R_BLS 256 al) ss, map (holds al) ss, "
                     "map (supported_al 256 al) ss, map (fun p => encode (snd p)) al))" % (al, ss))
    batch.add(exprs, lambda terms: judge_stmt_rows(ctx, acc, rows, kf_ids, flow, terms))


def judge_stmt_rows(ctx, acc, rows, kf_ids, flow, terms):
    for d, t in zip(rows, terms):
        outs, holds, supp, encs = t
        outs = list(outs); holds = list(holds); supp = list(supp); encs = list(encs)
        key = [flow, d["ty"], d["ver"], d["al"], d["ss"]]
        kinds = ",".join(s["s"] for s in d["ss"]) or "(none)"
        # (1) encoding tie on every value of the list
        for (tag, a, fe), e in zip(d["al"], encs):
            if int(fe, 16) != e:
                acc.viol({"case": slim(d), "tag": tag, "model": e}, "attribute list value encodes differently in the model")
        # (2) truth: model holds vs truth evaluated on the implementation's scalars
        truth = [impl_truth(d["al"], s) for s in d["ss"]]
        for s, h, tr in zip(d["ss"], holds, truth):
            if (tr is True) != (h == "true"):
                acc.viol({"case": slim(d), "stmt": s, "model_holds": h, "impl_scalars_truth": tr},
                         "model truth differs from truth over the implementation's field elements")
        all_true = all(t is True for t in truth)
        exp_prove = "None" if "Refuse" in outs else "Some"
        exp_verify = all(o == "ProofOk" for o in outs)
        acc.count("%s:%s" % (flow, "all-true" if all_true else "some-false"))
        for s, tr in zip(d["ss"], truth):
            acc.count("%s:stmt:%s:%s" % (flow, s["s"], "T" if tr else "F"))
        acc.case(key, d["prove"] == "Some")
        if d["prove"] == "PANIC" or d.get("verify") == "PANIC":
            acc.viol({"case": slim(d)}, "prover/verifier panicked on statements %s" % kinds)
            continue
        # (3)/(4) correspondence with the proved model
        if d["prove"] != exp_prove:
            acc.viol({"case": slim(d), "model_outcomes": outs, "theorem": "prove_some_iff_true_exact"},
                     "prover returned %s, the model predicts %s (statements %s)" % (d["prove"], exp_prove, kinds))
            continue
        if d["prove"] == "Some" and d["verify"] != exp_verify:
            acc.viol({"case": slim(d), "model_outcomes": outs, "theorem": "prove_some_iff_true_exact / statement_complete"},
                     "honest proof verifies=%s, the model predicts %s (statements %s)" % (d["verify"], exp_verify, kinds))
        # (5) the property itself, on the implementation alone
        verified = d["prove"] == "Some" and d["verify"] is True
        if not all_true and verified:
            acc.viol({"case": slim(d), "truth": truth}, "a proof of a FALSE statement verifies (%s)" % kinds)
        if all_true and not verified:
            causes = set()
            for s, tr, o in zip(d["ss"], truth, outs):
                if o != "ProofOk":
                    causes.add(gap_class(d["al"], s))
            if causes and all(x is not None for x in causes):
                for x in causes:
                    if x == "generators":
                        acc.count("precondition: set larger than the 256 generator pairs")
                    elif x in kf_ids:
                        ctx.known_finding(x, KF[x])
                        acc.count("known:" + x)
                    else:
                        acc.viol({"case": slim(d), "class": x, "theorem": "prove_some_iff_true_refuted"},
                                 "true statement without a verifying proof (%s; class %s not listed)" % (kinds, x))
            else:
                acc.viol({"case": slim(d), "model_outcomes": outs}, "all statements true but no verifying proof (%s)" % kinds)
        if d["prove"] == "Some" and d.get("reser") != d["verify"]:
            acc.viol({"case": slim(d)}, "verification result changes after serialising the proof")
        # (6) revealed values are exactly the committed values
        if d["prove"] == "Some":
            want = [[i, a] for i, s in enumerate(d["ss"]) if s["s"] == "reveal"
                    for (t, a, _) in d["al"] if t == s["tag"]]
            got = [[i, a] for i, a, _ in d["revealed"]]
            if got != want or d["nproofs"] != len(d["ss"]):
                acc.viol({"case": slim(d), "want": want, "got": got}, "revealed values differ from the committed attribute values")
        # (7) perturbations
        v1_range_only = d["ver"] == 1 and all(s["s"] == "range" for s in d["ss"])
        for name, res in d.get("pert", []):
            base = name.split("#")[0]
            acc.perturbation(name, res is False)
            if res is False:
                continue
            if res == "PANIC":
                acc.viol({"case": slim(d), "perturbation": name}, "verifier panicked on perturbation %s" % name)
                continue
            if not d["ss"]:
                acc.count("observation: empty statement list binds nothing")
                continue
            v1_swap = (d["ver"] == 1 and base == "statements_and_proofs_swapped" and len(d["ss"]) >= 2
                       and "range" in (d["ss"][0]["s"], d["ss"][1]["s"]))
            if ((v1_range_only and base in CONTEXT_PERTS) or v1_swap) and "KF-C18-3" in kf_ids:
                ctx.known_finding("KF-C18-3", KF["KF-C18-3"])
                acc.count("known:KF-C18-3")
                continue
            acc.viol({"case": slim(d), "perturbation": name}, "verification still succeeds after perturbation %s (statements %s, version %s)"
                     % (name, kinds, d["ver"]))


def check_ties(ctx, acc, batch, rows):
    ties = [d for d in rows if isinstance(d.get("tie"), dict)]
    if not ties:
        return 0
    exprs = []
    for d in ties:
        t = d["tie"]
        if t["flow"] == "id":
            exprs.append("id_reveal_prefix %s %s %s %s %s %s %s %s %s %s" % (
                "true" if t["v2"] else "false", hexlist(t["global"]), hexlist(t["challenge"]), hexlist(t["cred"]), hexlist(t["x"]),
                hexlist(t["keys"]), hexlist(t["C"]), hexlist(t["public"]), hexlist(t["coeff"]), hexlist(t["point"])))
        elif t["flow"] == "web3v0":
            exprs.append("web3_v0_reveal_prefix %s %s %s %s %s %s %s %s" % tuple(hexlist(t[k]) for k in (
                "challenge", "global", "x", "keys", "C", "public", "coeff", "point")))
        else:
            exprs.append("v1_account_reveal_prefix %s" % " ".join(hexlist(t[k]) for k in (
                "given", "requested", "global", "proof_version", "created", "issuer", "statements", "network", "cred_id",
                "x", "keys", "C", "public", "coeff", "point")))
    batch.add(exprs, lambda terms: judge_ties(acc, ties, terms), heavy=True)
    return len(ties)


def judge_ties(acc, ties, terms):
    for d, bs in zip(ties, terms):
        acc.count("transcript-tie:" + d["tie"]["flow"])
        h = hashlib.sha3_256(bytes(bs)).hexdigest()
        if h != d["tie"]["fs"]:
            acc.viol({"flow": d["tie"]["flow"], "model_sha3": h, "impl_challenge": d["tie"]["fs"], "model_len": len(bs),
                      "layer": "transcript contents (Statements.v item lists)"},
                     "first Fiat-Shamir challenge of a %s proof is not the SHA3 of the model transcript" % d["tie"]["flow"])


def check_frames(ctx, acc, batch, rows):
    exprs = []
    for r in rows:
        items = "[" + ";".join("Item %s %s" % (hexlist(l), hexlist(m)) for l, m in [[r["dom"], ""]] + r["items"]) + "]"
        exprs.append("(frame_v1 %s, frame_v0 %s)" % (items, items))
    batch.add(exprs, lambda terms: judge_frames(acc, rows, terms))
    ctx.cov["evaluations"] += len(rows)
    ctx.cov["traces_validated_against_impl"] += len(rows)


def judge_frames(acc, rows, terms):
    for r, (b1, b0) in zip(rows, terms):
        acc.count("frame")
        acc.case(["frame", r["dom"], r["items"]], True)
        if hashlib.sha3_256(bytes(b1)).hexdigest() != r["v1"]:
            acc.viol({"case": r, "model_bytes": bytes(b1).hex()}, "TranscriptProtocolV1 framing differs from the model")
        if hashlib.sha3_256(bytes(b0)).hexdigest() != r["v0"]:
            acc.viol({"case": r, "model_bytes": bytes(b0).hex()}, "RandomOracle framing differs from the model")


# ------------------------------------------------------------------------------- request-anchor claim matching
def coq_req(rq):
    return "(ReqClaims [%s] [%s] [%s])" % (";".join(coq_stmt(x) for x in rq["ss"]),
                                          ";".join("Did %d %d" % (i, n) for i, n in rq["issuers"]),
                                          ";".join("KAccount" if k == "account" else "KIdentity" for k in rq["source"]))


def coq_pres(pc):
    return "(PresClaims %s %d %d [%s])" % ("KAccount" if pc["kind"] == "account" else "KIdentity", pc["issuer"], pc["net"],
                                         ";".join(coq_stmt(x) for x in pc["ss"]))


MATCH_RESULT = {"MOk": "Verified", "MFailType": "Failed(CredentialType)", "MFailIssuer": "Failed(CredentialIssuer)",
                "MFailClaims": "Failed(SubjectClaims)"}


def check_matches(ctx, acc, batch, rows):
    ms = [d for d in rows if d["k"] in ("match", "match2")]
    if not ms:
        return
    exprs = []
    for d in ms:
        if d["k"] == "match":
            # a request statement of kind reveal is printed by the harness as the value statement of the presentation
            rq = dict(d["rq"])
            rq["ss"] = [({"s": "reveal", "tag": x["tag"]} if x["s"] == "value" else x) for x in rq["ss"]]
            exprs.append("(claims_match %s %s, issuer_allowed_fieldwise %s %s)" % (coq_req(rq), coq_pres(d["pc"]), coq_req(rq), coq_pres(d["pc"])))
        else:
            rqs = []
            for rq in d["rqs"]:
                rq = dict(rq)
                rq["ss"] = [({"s": "reveal", "tag": x["tag"]} if x["s"] == "value" else x) for x in rq["ss"]]
                rqs.append(coq_req(rq))
            exprs.append("(claims_list_match [%s] [%s], true)" % (";".join(rqs), ";".join(coq_pres(pc) for pc in d["pcs"])))
    batch.add(exprs, lambda terms: judge_matches(acc, ms, terms))


def judge_matches(acc, ms, terms):
    for d, (m, fieldwise) in zip(ms, terms):
        acc.count("anchor-match:%s:%s" % (d["name"], m))
        acc.case(["match", d["name"], d.get("i")], True)
        if d["result"] == "PANIC":
            acc.viol({"case": d}, "verify_presentation_with_request_anchor panicked (%s)" % d["name"])
        elif MATCH_RESULT[m] != d["result"]:
            acc.viol({"case": d, "model": m, "issuer_allowed_fieldwise": fieldwise, "theorem": "claims_match_ok_iff / claims_list_match_ok_iff"},
                     "request-anchor claim matching (%s): implementation %s, model %s" % (d["name"], d["result"], MATCH_RESULT[m]))


def check_multi(ctx, acc, batch, rows):
    ms = [d for d in rows if d["k"] == "multi"]
    if not ms:
        return
    for d in ms:
        acc.count("multi:%s@%s" % (d["name"], d["pos"]))
        acc.case(["multi", d["name"], d["pos"], d.get("i")], True)
        if d["result"] == "PANIC":
            acc.viol({"case": d}, "verify_presentation_with_request_anchor panicked (%s at position %s)" % (d["name"], d["pos"]))
        elif d["expect_ok"] != (d["result"] == "Verified"):
            acc.viol({"case": d}, "three-credential presentation, %s at position %s of %s: %s" % (d["name"], d["pos"], d.get("kinds"), d["result"]))
    vs = [d for d in ms if d.get("validity_case") and all(a is not None and b is not None for a, b in d["validities"])]
    exprs = ["all_valid_at %d [%s]" % (d["now"], ";".join("(%d, %d)" % (a, b) for a, b in d["validities"])) for d in vs]

    def judge(terms):
        for d, t in zip(vs, terms):
            if (t == "true") != (d["result"] == "Verified"):
                acc.viol({"case": d, "model_all_valid_at": t, "theorem": "all_valid_at_iff"},
                         "credential validity (%s at position %s): implementation %s, model all_valid_at = %s" % (d["name"], d["pos"], d["result"], t))
    batch.add(exprs, judge)


def check_crafted(ctx, acc, batch, rows):
    cs = [d for d in rows if d["k"] == "crafted"]
    if not cs:
        return
    ok = []
    for d in cs:
        acc.count("crafted:%s:delta=%s" % (d["name"], d["delta"]))
        acc.case(["crafted", d["name"], d["case"], d["delta"]], True)
        if d["ncoeff"] is None:
            acc.viol({"case": d, "layer": "crafted prover"}, "the crafted identity-attributes prover could not publish threshold%+d "
                     "sharing coefficients (the harness no longer reaches that code path)" % d["delta"])
        elif d["verify"] == "PANIC":
            acc.viol({"case": d}, "verifier panicked on a proof with %d sharing coefficients for threshold %d" % (d["ncoeff"], d["threshold"]))
        else:
            ok.append(d)
            if (d["verify"] is True) != (d["ncoeff"] == d["claimed_threshold"]):
                acc.viol({"case": d, "theorem": "identity_attributes_threshold_exact"},
                         "identity attribute credential with %d sharing-coefficient commitments for the signed threshold %d: verify = %s"
                         % (d["ncoeff"], d["claimed_threshold"], d["verify"]))
    exprs = ["identity_attributes_verdict true %d %d true" % (d["claimed_threshold"], d["ncoeff"]) for d in ok]

    def judge(terms):
        for d, t in zip(ok, terms):
            if (t == "IAOk") != (d["verify"] is True):
                acc.viol({"case": d, "model": t}, "verify_identity_attributes: implementation %s, model %s" % (d["verify"], t))
    batch.add(exprs, judge)


def check_lies(ctx, acc, rows, kf_ids):
    for d in rows:
        if d["k"] != "lie":
            continue
        acc.count("lie:%s:%s" % (d["flow"], d["name"]))
        acc.case(["lie", d["flow"], d["name"], d.get("i")], d["prove"] == "Some")
        if d["prove"] == "PANIC" or d["verify"] == "PANIC":
            acc.viol({"case": d}, "%s: prover/verifier panicked on the consistent lie %s" % (d["flow"], d["name"]))
        elif d["verify"] is True:
            kf = None
            if d["flow"] == "v0" and d["name"].startswith("account_meta_"):
                kf = "KF-C18-4"
            if d["flow"] == "v0" and d["name"].startswith("web3_holder_asserted_"):
                kf = "KF-C18-5"
            if kf and kf in kf_ids:
                ctx.known_finding(kf, KF[kf])
                acc.count("known:" + kf)
            else:
                acc.viol({"case": d}, "%s: a presentation built from the start with false metadata (%s, %s credential) verifies "
                         "against the true public data" % (d["flow"], d["name"], d["kind"]))


# ------------------------------------------------------------------------------- presentations
def check_presentations(ctx, acc, batch, rows, kf_ids, flow):
    """rows: {"k":"pres", "flow":..., "creds":[{"ty","al","ss","kind"}...], "prove", "verify", "same_request", "pert":[[name,res]]}"""
    # per credential: model prediction as for id-level statements
    exprs, index = [], []
    for i, d in enumerate(rows):
        for j, cr in enumerate(d["creds"]):
            al, ss = coq_alist(cr["al"]), "[" + ";".join(coq_stmt(s) for s in cr["ss"]) + "]"
            exprs.append("(let al := %s in let ss := %s in (map (outcome_of R_BLS 256 al) ss, map (holds al) ss))" % (al, ss))
            index.append((i, j))
    batch.add(exprs, lambda terms: judge_presentations(ctx, acc, rows, kf_ids, flow, index, terms))


def judge_presentations(ctx, acc, rows, kf_ids, flow, index, terms):
    pred = {}
    for (i, j), t in zip(index, terms):
        pred[(i, j)] = (list(t[0]), list(t[1]))
    for i, d in enumerate(rows):
        outs, truth, holds = [], [], []
        for j, cr in enumerate(d["creds"]):
            o, h = pred[(i, j)]
            outs += o
            holds += h
            truth += [impl_truth(cr["al"], s) for s in cr["ss"]]
        kinds = "+".join(cr["kind"] for cr in d["creds"]) or "(none)"
        acc.count("%s:%s:%s" % (flow, kinds, "all-true" if all(t is True for t in truth) else "some-false"))
        acc.case([flow, d["creds"], d.get("variant")], d["prove"] == "Some")
        for h, tr in zip(holds, truth):
            if (tr is True) != (h == "true"):
                acc.viol({"case": slim(d)}, "model truth differs from truth over the implementation's field elements")
        if d["prove"] == "PANIC" or d.get("verify") == "PANIC":
            acc.viol({"case": slim(d)}, "%s presentation prover/verifier panicked" % flow)
            continue
        exp_prove = "Err" if "Refuse" in outs else "Some"
        exp_verify = all(o == "ProofOk" for o in outs)
        if d["prove"] != exp_prove:
            acc.viol({"case": slim(d), "model_outcomes": outs}, "%s: prove returned %s, the model predicts %s" % (flow, d["prove"], exp_prove))
            continue
        verified = d["prove"] == "Some" and d["verify"] is True
        if d["prove"] == "Some" and d["verify"] != exp_verify:
            acc.viol({"case": slim(d), "model_outcomes": outs}, "%s: presentation verifies=%s, the model predicts %s" % (flow, d["verify"], exp_verify))
        all_true = all(t is True for t in truth)
        if not all_true and verified:
            acc.viol({"case": slim(d)}, "%s: a presentation with a FALSE statement verifies" % flow)
        if all_true and not verified:
            causes = set()
            for cr in d["creds"]:
                for s in cr["ss"]:
                    causes.add(gap_class(cr["al"], s))
            causes.discard(None)
            if causes and all(x in kf_ids or x == "generators" for x in causes):
                for x in causes:
                    if x != "generators":
                        ctx.known_finding(x, KF[x])
                        acc.count("known:" + x)
            else:
                acc.viol({"case": slim(d), "model_outcomes": outs}, "%s: all statements true but the presentation does not verify" % flow)
        if verified and d.get("same_request") is False:
            acc.viol({"case": slim(d)}, "%s: verify returned a request different from the one that was proven" % flow)
        if verified and d.get("revealed_ok") is False:
            acc.viol({"case": slim(d)}, "%s: revealed values differ from the committed values" % flow)
        if verified and d.get("json_roundtrip") not in (None, True):
            acc.viol({"case": slim(d)}, "%s: presentation does not verify after a JSON round trip" % flow)
        for name, res in d.get("pert", []):
            acc.perturbation(flow + ":" + name, res is False)
            if res is False:
                continue
            if res == "PANIC":
                acc.viol({"case": slim(d), "perturbation": name}, "%s verifier panicked on perturbation %s" % (flow, name))
                continue
            base = name.split("#")[0]
            if flow == "v0" and base.startswith("account_meta_") and "KF-C18-4" in kf_ids:
                ctx.known_finding("KF-C18-4", KF["KF-C18-4"])
                acc.count("known:KF-C18-4")
                continue
            acc.viol({"case": slim(d), "perturbation": name}, "%s presentation still verifies after perturbation %s (%s)" % (flow, name, kinds))
        # JSON layer: every mutated JSON form that still parses
        for row in d.get("json", []):
            name = row[0]
            acc.perturbation(flow + ":json:" + name.split(":")[-1], True)
            if row[1] == "PANIC":
                acc.viol({"case": slim(d), "mutation": name}, "%s: parsing a mutated presentation JSON panicked (%s)" % (flow, name))
                continue
            _, faithful, same, same_mod, ver = row
            if ver == "PANIC":
                acc.viol({"case": slim(d), "mutation": name}, "%s: verifier panicked on a parsed mutated JSON (%s)" % (flow, name))
            if ver is not True:
                continue
            if not faithful:
                if same and name.rsplit(":", 1)[0].endswith(("validFrom", "validUntil")):
                    acc.count("observation: validFrom/validUntil are read at year-month granularity")
                else:
                    acc.viol({"case": slim(d), "mutation": name, "faithful": faithful, "same_struct": same},
                             "%s: a mutated presentation JSON (%s) parses to something else than it says "
                             "(re-serialisation differs) and verifies" % (flow, name))
            elif not same:
                if same_mod and name.startswith("json:proof.created"):
                    acc.count("observation: the linking proof's `created` timestamp is not authenticated")
                elif same_mod and flow == "v0" and "KF-C18-4" in kf_ids:
                    ctx.known_finding("KF-C18-4", KF["KF-C18-4"])
                    acc.count("known:KF-C18-4")
                else:
                    acc.viol({"case": slim(d), "mutation": name}, "%s: a presentation JSON altered by %s still verifies" % (flow, name))
        for row in d.get("json_request", []):
            acc.count("%s:json-request" % flow)
            if row[0] == "roundtrip":
                if row[2] is not True:
                    acc.viol({"case": slim(d)}, "%s: request does not survive a JSON round trip" % flow)
            elif row[1] is not True or row[2] is True:
                acc.viol({"case": slim(d), "mutation": row[0], "faithful": row[1], "same_struct": row[2]},
                         "%s: a mutated request JSON (%s) parses to something else than it says" % (flow, row[0]))
        for name, res in d.get("must_accept", []):
            acc.count("%s:control:%s" % (flow, name))
            if res is not True:
                acc.viol({"case": slim(d), "control": name, "result": res}, "%s: control case %s must verify but does not" % (flow, name))


def run(ctx):
    kf = c.load_known_findings()
    kf_ids = {f["id"] for f in kf["findings"] if f["property"] == "C18"}
    ctx.assumptions += [
        "group = prime-order module over its scalar field; arkworks curve arithmetic, SHA3/SHA-512, ed25519-dalek and chrono are not modelled",
        "soundness (no verifying proof of a false statement from ANY prover) is computational (dlog / collision resistance): exercised, not proved",
        "completeness of the whole proof is proved relative to the sub-protocol completeness lemmas (C07 dlog, C11 range / set proofs); "
        "the composition is tied to the code by the correspondence run",
        "tamper rejection is proved as: transcripts are injective in every request field (prefix-free Serial encoders) => accepting after "
        "alteration exhibits an explicit SHA3 collision; the per-statement sub-protocol items are tied by the Fiat-Shamir challenge of reveal proofs",
    ]
    acc = Acc(ctx)
    ok, info = c.coq_prove(ctx)
    proof_broken = None
    if not ok:
        proof_broken = info
        ctx.log("proof obligations broken:", info["failed_file"], info["error"][-600:])
        c.coq_build(ctx, ["Crypto/Statements.vo"])
    ok, binp = c.cargo_build(ctx, "c18")
    if not ok:
        ctx.violation({"layer": "harness build against /repo", "error": binp},
                      "harness no longer builds against the implementation", no_input=True)
        return
    q = ctx.quick
    batch = Batch(ctx)
    specs = [("enc", 150 if q else 4000), ("frame", 40 if q else 1000), ("stmt", 110 if q else 4000),
             ("v0", 14 if q else 600), ("v1", 10 if q else 400)]
    res = harness_rows(ctx, binp, specs)
    for m, _ in specs:
        rc, rows, out = res[m]
        if rc != 0 or not rows:
            ctx.violation({"layer": "harness " + m, "output": out[-1500:]}, "%s harness failed" % m, no_input=True)
            return
    ctx.log("harness runs done")
    # ---- encoding, framing
    check_enc(ctx, acc, batch, res["enc"][1])
    check_frames(ctx, acc, batch, res["frame"][1])
    # ---- id-level statements
    rows = res["stmt"][1]
    check_stmt_rows(ctx, acc, batch, rows, kf_ids, "id")
    nties = check_ties(ctx, acc, batch, rows)
    ctx.cov["evaluations"] += len(rows)
    ctx.cov["traces_validated_against_impl"] += len(rows) + nties
    ctx.cov["samples"].append(json.dumps({k: v for k, v in rows[4].items() if k not in ("pert", "tie")})[:500])
    # the Coq refutation witnesses must reproduce on the implementation (first rows of the corpus)
    w1 = [d for d in rows[:2] if d["ss"] and d["ss"][0]["s"] == "notin" and not d["ss"][0]["set"]]
    w2 = [d for d in rows[:8] if d["ss"] and d["ss"][0]["s"] == "range" and d["ss"][0]["lo"]["a"].get("b") == "61" * 16]
    if not (w1 and all(d["prove"] == "None" for d in w1)) or not (w2 and all(d["prove"] == "Some" and d["verify"] is False for d in w2)):
        ctx.violation({"w1": [slim(d) for d in w1], "w2": [slim(d) for d in w2], "theorem": "prove_some_iff_true_refuted"},
                      "the refutation witnesses of Props/C18.v do not reproduce on the implementation (stale known finding?)",
                      no_input=True)
    # ---- presentations
    for flow in ("v0", "v1"):
        prow = res[flow][1]
        pres = [d for d in prow if d["k"] == "pres"]
        check_presentations(ctx, acc, batch, pres, kf_ids, flow)
        nt = check_ties(ctx, acc, batch, pres)
        check_matches(ctx, acc, batch, prow)
        check_multi(ctx, acc, batch, prow)
        check_crafted(ctx, acc, batch, prow)
        check_lies(ctx, acc, prow, kf_ids)
        for d in prow:
            if d["k"] == "anchor":
                acc.count("anchor:" + d["name"])
                acc.case(["anchor", d["name"], d.get("i")], True)
                if d["result"] == "PANIC":
                    acc.viol({"case": d}, "verify_presentation_with_request_anchor panicked (%s)" % d["name"])
                elif d["expect_ok"] != (d["result"] == "Verified"):
                    acc.viol({"case": d}, "request-anchor verification: %s gave %s" % (d["name"], d["result"]))
        ctx.cov["evaluations"] += len(prow)
        ctx.cov["traces_validated_against_impl"] += len(pres) + nt
        if pres:
            ctx.cov["samples"].append(json.dumps({k: v for k, v in pres[0].items() if k not in ("pert", "tie")})[:500])
    batch.run()
    ctx.log("model evaluation and comparison done")
    ctx.cov["distinct_nontrivial"] = len(acc.nontrivial)
    ctx.notes["distribution"] = dict(sorted(acc.dist.items()))
    ctx.notes["perturbations"] = {"total": acc.pert, "by_kind": dict(sorted(acc.pert_kinds.items()))}
    ctx.cov["rule"] = ("enc: boundary strings (0/1/30/31 bytes, NUL, DEL, multi-byte UTF-8), u64 edges, timestamps; stmt: 2-5 attribute lists, 0-4 statements "
                       "per case generated RELATIVE to the committed value (lower=value, value=upper-1, value=upper, value=lower-1, empty/reversed/"
                       "whole-domain/wide/mixed-kind ranges; sets of size 0,1,2,3,4,5,7,8,9,15,16,17,33,256,257 containing / not containing the value "
                       "or another kind with the same scalar), both proof versions, AttributeKind and Web3IdAttribute; presentations: account/web3 (v0), "
                       "account/identity (v1) credentials, request anchors; non-trivial = a proof / presentation was produced; distinct = canonical case hash")
    if proof_broken:
        found = bool(ctx.violations)
        ctx.violation({"layer": "Coq proof obligations", "broken": proof_broken},
                      "theorem(s) of Props/C18.v no longer check (%s)" % proof_broken["failed_file"], no_input=not found)
    if ctx.tier == "thorough":
        ok, out = c.coqchk(ctx)
        if not ok:
            ctx.violation({"layer": "coqchk", "output": out[-2000:]}, "coqchk rejected Props/C18.vo", no_input=True)
