"""Shared machinery for the per-property checks (see DESIGN.md section 2.3).

A property module `checks/Cxx.py` defines `run(ctx)`; it uses the helpers here to
  1. (re)generate translator output from /repo's working tree,
  2. build the Coq development for Props/Cxx.vo (full .vo build) and gate it,
  3. build and run the Rust harness against /repo's working tree (hooks on),
  4. evaluate the Coq model on the same cases (coqc + vm_compute, or extracted OCaml),
  5. diff, search, report, and write evidence/Cxx.json.
"""
import hashlib
import json
import os
import re
import subprocess
import sys
import time

VERIF = os.path.dirname(os.path.dirname(os.path.abspath(__file__)))
REPO = os.environ.get("VERIF_REPO", "/repo")
COQ = os.path.join(VERIF, "coq")
HARNESS = os.path.join(VERIF, "harness")
CACHE = os.path.join(VERIF, ".cache")
TARGET = os.path.join(CACHE, "target")
GUARD = "concordium_base_verif"

FORBIDDEN = re.compile(
    r"\b(Admitted|admit|Axiom|Axioms|Parameter|Parameters|Conjecture|Conjectures|Admit Obligations|"
    r"Unset Guard Checking|Unset Positivity Checking|Unset Universe Checking|bypass_check|"
    r"type-in-type|impredicative-set|native_compute)\b"
)
# Axioms of the standard library that a theorem may depend on (named in DESIGN.md section 3).
ALLOWED_AXIOMS = {
    "functional_extensionality_dep",
    "FunctionalExtensionality.functional_extensionality_dep",
    "Coq.Logic.FunctionalExtensionality.functional_extensionality_dep",
    "Eqdep.Eq_rect_eq.eq_rect_eq",
    "Coq.Logic.Eqdep.Eq_rect_eq.eq_rect_eq",
    "ProofIrrelevance.proof_irrelevance",
    "Coq.Logic.ProofIrrelevance.proof_irrelevance",
    "Classical_Prop.classic",
    "Coq.Logic.Classical_Prop.classic",
    "JMeq.JMeq_eq",
    "Coq.Logic.JMeq.JMeq_eq",
}


class Violation(Exception):
    pass


class Ctx:
    def __init__(self, prop, tier, seed):
        self.prop = prop
        self.tier = tier
        self.seed = seed
        self.t0 = time.time()
        self.violations = []  # list of (replay_path, summary, no_input)
        self.known = []  # KNOWN-FINDING lines
        self.cov = {
            "obligations": 0,
            "discharged": 0,
            "checker_cmd": "",
            "trusted_base": [],
            "evaluations": 0,
            "distinct_nontrivial": 0,
            "traces_validated_against_impl": 0,
            "rule": "",
            "samples": [],
        }
        self.assumptions = []
        self.notes = {}
        os.makedirs(os.path.join(VERIF, "evidence"), exist_ok=True)
        os.makedirs(os.path.join(VERIF, "replays"), exist_ok=True)
        self.work = os.path.join(CACHE, "run", prop)
        os.makedirs(self.work, exist_ok=True)

    @property
    def quick(self):
        return self.tier == "quick"

    def log(self, *a):
        print("[%s %6.1fs]" % (self.prop, time.time() - self.t0), *a, flush=True)

    # ------------------------------------------------------------------ reporting
    def violation(self, replay, summary, no_input=False):
        """Record a violation.  `replay` is a JSON-serialisable object."""
        n = len(self.violations)
        path = os.path.join(VERIF, "replays", "%s-%s-%d-%d.json" % (self.prop, self.tier, self.seed, n))
        with open(path, "w") as f:
            json.dump({"property": self.prop, "summary": summary, "no_failing_input_found": no_input,
                       "replay": replay}, f, indent=1, default=str)
        self.violations.append((path, summary, no_input))
        self.log("violation:", summary)

    def known_finding(self, kf_id, what):
        line = "KNOWN-FINDING: property=%s %s %s" % (self.prop, kf_id, what)
        if line not in self.known:
            self.known.append(line)

    def finish(self):
        wall = time.time() - self.t0
        cov = dict(self.cov)
        cov.update(self.notes)
        # keys typed by EVIDENCE.schema.json must keep their types
        if "exhaustive" in cov and not isinstance(cov["exhaustive"], bool):
            cov["exhaustive_detail"] = cov.pop("exhaustive")
        for k in ("states", "transitions", "programs", "disagreements_checked", "evaluations",
                  "distinct_nontrivial", "traces_validated_against_impl", "obligations", "discharged"):
            if k in cov and not isinstance(cov[k], int):
                cov[k + "_detail"] = cov.pop(k)
        if not isinstance(cov.get("explanation", ""), str):
            cov["explanation_detail"] = cov.pop("explanation")
        if not cov["samples"]:
            cov["samples"] = ["(no samples recorded)"]
        ev = {
            "property_id": self.prop,
            "tier": self.tier,
            "seed": self.seed,
            "level": "proof",
            "coverage": cov,
            "assumptions": self.assumptions,
            "wall_s": round(wall, 2),
            "violations": len(self.violations),
        }
        with open(os.path.join(VERIF, "evidence", self.prop + ".json"), "w") as f:
            json.dump(ev, f, indent=1, default=str)
        for l in self.known:
            print(l)
        for path, summary, no_input in self.violations:
            print("VIOLATION property=%s replay=%s%s" % (self.prop, path, " no-failing-input-found" if no_input else ""))
        self.log("done: %d obligations, %d discharged, %d evaluations, %d violations" % (
            cov["obligations"], cov["discharged"], cov["evaluations"], len(self.violations)))
        return 1 if self.violations else 0


# ---------------------------------------------------------------------- known findings
def load_known_findings():
    p = os.path.join(VERIF, "known_findings.json")
    if not os.path.exists(p):
        return {"findings": [], "fixed": []}
    return json.load(open(p))


# ---------------------------------------------------------------------- shell helpers
def sh(cmd, cwd=None, timeout=3600, env=None, input=None):
    e = dict(os.environ)
    e.update({"CARGO_NET_OFFLINE": "true", "GOPROXY": "off", "PIP_NO_INDEX": "1"})
    if env:
        e.update(env)
    try:
        r = subprocess.run(cmd, cwd=cwd, shell=isinstance(cmd, str), stdout=subprocess.PIPE,
                           stderr=subprocess.STDOUT, timeout=timeout, env=e, input=input)
        return r.returncode, r.stdout.decode("utf-8", "replace")
    except subprocess.TimeoutExpired as ex:
        out = ex.stdout.decode("utf-8", "replace") if ex.stdout else ""
        return 124, out + "\n[timeout after %ss]" % timeout


# ---------------------------------------------------------------------- Coq
_made = False


def coq_makefile():
    global _made
    if _made:
        return
    # _CoqProject lists every .v under coq/ (generated files included) so coqdep sees them.
    vs = []
    for root, _, files in os.walk(COQ):
        for f in files:
            if f.endswith(".v") and not f.startswith("."):
                rel = os.path.relpath(os.path.join(root, f), COQ)
                if rel.startswith("Run/cases") or rel.startswith(".") or "/." in rel:
                    continue
                vs.append(rel)
    vs.sort()
    head = ["-Q . CB", "-arg -w -arg -notation-overridden,-deprecated-hint-without-locality,"
            "-deprecated-instance-without-locality,-ambiguous-paths,-redundant-canonical-projection"]
    txt = "\n".join(head + vs) + "\n"
    p = os.path.join(COQ, "_CoqProject")
    if not os.path.exists(p) or open(p).read() != txt:
        open(p, "w").write(txt)
    rc, out = sh("coq_makefile -f _CoqProject -o Makefile", cwd=COQ, timeout=120)
    if rc != 0:
        raise RuntimeError("coq_makefile failed: " + out)
    _made = True


def coq_closure(vfile):
    """All .v files (relative to coq/) that `vfile` transitively depends on, itself included.
    Computed with coqdep (authoritative), never with a regex over Require lines."""
    seen = set()
    todo = [vfile]
    while todo:
        f = todo.pop()
        if f in seen:
            continue
        seen.add(f)
        rc, out = sh(["coqdep", "-Q", ".", "CB", f], cwd=COQ, timeout=120)
        for line in out.split("\n"):
            if ":" not in line or not line.split(":")[0].strip().startswith(f[:-2] + ".vo"):
                continue
            for dep in line.split(":", 1)[1].split():
                if dep.endswith(".vo") and not dep.startswith("/"):
                    cand = dep[:-1]
                    if cand != f and os.path.exists(os.path.join(COQ, cand)):
                        todo.append(cand)
    return sorted(seen)


def coq_gate(ctx, vfile):
    """Grep the dependency closure for forbidden vernacular.  Returns list of hits."""
    hits = []
    for f in coq_closure(vfile):
        src = open(os.path.join(COQ, f)).read()
        nocomment = re.sub(r"\(\*.*?\*\)", lambda m: " " * len(m.group(0)), src, flags=re.S)
        for i, line in enumerate(nocomment.split("\n"), 1):
            m = FORBIDDEN.search(line)
            if m:
                hits.append("%s:%d: %s" % (f, i, m.group(0)))
    return hits


def coq_prove(ctx, prop_v=None, timeout=3000):
    """Build Props/Cxx.vo (full build of its closure), capture Print Assumptions, gate.

    Returns (ok, info).  On failure info = {'failed_file','error'}; the caller runs the search
    and reports the violation (possibly `no-failing-input-found`)."""
    coq_makefile()
    prop_v = prop_v or ("Props/%s.v" % ctx.prop)
    vo = prop_v[:-2] + ".vo"
    # force re-check of the property file itself so that its output is captured on every run
    for ext in (".vo", ".vos", ".vok", ".glob"):
        try:
            os.remove(os.path.join(COQ, prop_v[:-2] + ext))
        except FileNotFoundError:
            pass
    t = time.time()
    os.makedirs(CACHE, exist_ok=True)
    # the lock serialises Coq builds of concurrently running checks (they share coq/*.vo)
    rc, out = sh("ulimit -v 24000000; flock -w 1800 %s sh -c 'rm -f %s; timeout -k 5 %d make -j16 %s'" % (
        os.path.join(CACHE, "coq.lock"), vo, min(timeout, 1500), vo), cwd=COQ, timeout=timeout + 1900)
    ctx.notes["coq_build_s"] = round(time.time() - t, 1)
    checker = "cd coq && coq_makefile -f _CoqProject -o Makefile && make -j16 %s  (coqc 8.16.1, full .vo build)" % vo
    ctx.cov["checker_cmd"] = checker
    src = open(os.path.join(COQ, prop_v)).read()
    nocomment = re.sub(r"\(\*.*?\*\)", " ", src, flags=re.S)
    theorems = re.findall(r"^\s*(?:Theorem|Lemma|Corollary|Example)\s+([A-Za-z0-9_']+)", nocomment, flags=re.M)
    ctx.cov["obligations"] = len(theorems)
    ctx.notes["theorems"] = theorems
    if rc != 0:
        m = re.search(r'File "\./([^"]+)", line (\d+)', out)
        failed = m.group(1) if m else "?"
        ctx.cov["discharged"] = 0
        return False, {"failed_file": failed, "error": out[-3000:]}
    # Print Assumptions blocks
    axioms = set()
    closed = out.count("Closed under the global context")
    for blk in re.finditer(r"Axioms:\n((?:.+\n)+?)(?=\S|\Z)", out):
        pass
    in_ax = False
    for line in out.split("\n"):
        if line.startswith("Axioms:"):
            in_ax = True
            continue
        if in_ax:
            m = re.match(r"^([A-Za-z_][A-Za-z0-9_.']*)\s*:", line)
            if m:
                axioms.add(m.group(1))
            elif line.startswith(" ") or line.startswith("\t") or not line.strip():
                continue
            else:
                in_ax = False
    n_pa = len(re.findall(r"^\s*Print Assumptions\s", nocomment, flags=re.M))
    ctx.notes["print_assumptions"] = {"count": n_pa, "closed": closed, "axioms": sorted(axioms)}
    bad = [a for a in axioms if a not in ALLOWED_AXIOMS and a.split(".")[-1] not in
           {x.split(".")[-1] for x in ALLOWED_AXIOMS}]
    hits = coq_gate(ctx, prop_v)
    if n_pa < len([t for t in theorems]):
        # every theorem in a Props file must be followed by Print Assumptions
        hits.append("%s: %d theorems but only %d Print Assumptions" % (prop_v, len(theorems), n_pa))
    if bad or hits:
        ctx.cov["discharged"] = 0
        return False, {"failed_file": prop_v, "error": "forbidden: %s %s" % (bad, hits)}
    ctx.cov["discharged"] = len(theorems)
    tb = ["Coq 8.16.1 kernel + vm_compute (no native_compute)",
          "axioms reported by Print Assumptions: %s" % (sorted(axioms) if axioms else "none (Closed under the global context)")]
    ctx.cov["trusted_base"] = tb
    return True, {"closure": coq_closure(prop_v)}


def coq_build(ctx, targets, timeout=3000):
    """Build model .vo files (proof-free files keep building when a proof file breaks)."""
    coq_makefile()
    os.makedirs(CACHE, exist_ok=True)
    rc, out = sh("ulimit -v 24000000; flock -w 1800 %s timeout -k 5 %d make -k -j16 %s" % (
        os.path.join(CACHE, "coq.lock"), min(timeout, 1500), " ".join(targets)), cwd=COQ, timeout=timeout + 1900)
    return rc == 0, out[-3000:]


def extract_build(ctx, extract_v, driver_ml, name, timeout=1800):
    """Extract (coq/Run/<extract_v> must contain `Extraction "<name>_model.ml" ...` using ExtrOcamlBasic
    only) and compile together with the hand-written driver ocaml/<driver_ml> into a native runner.
    Returns (ok, path_or_error)."""
    coq_makefile()
    d = os.path.join(CACHE, "ocaml", name)
    os.makedirs(d, exist_ok=True)
    src = open(os.path.join(COQ, "Run", extract_v)).read()
    bad = re.findall(r"Extract\s+(Constant|Inductive|Inlined)|ExtrOcaml(?!Basic)\w+", src)
    extra = [b for b in bad if b]
    ctx.notes.setdefault("extraction_directives", []).append({extract_v: extra or "ExtrOcamlBasic only"})
    rc, out = sh("ulimit -v 24000000; flock -w 1800 %s timeout -k 5 1500 sh -c 'make -k -j16 %s && cd %s && coqc -noglob -Q %s CB -w none %s'" % (
        os.path.join(CACHE, "coq.lock"),
        " ".join(f[:-2] + ".vo" for f in coq_closure("Run/" + extract_v) if f != "Run/" + extract_v) or "NO_TARGETS_FOUND",
        d, COQ, os.path.join(COQ, "Run", extract_v)), cwd=COQ, timeout=timeout)
    if rc != 0:
        return False, out[-3000:]
    import shutil
    shutil.copy(os.path.join(VERIF, "ocaml", driver_ml), os.path.join(d, driver_ml))
    mls = [name + "_model.mli", name + "_model.ml", driver_ml]
    rc, out = sh("ocamlfind ocamlopt -O2 -w -a -package str,unix -linkpkg %s -o runner" % " ".join(mls),
                 cwd=d, timeout=timeout)
    if rc != 0:
        return False, out[-3000:]
    return True, os.path.join(d, "runner")


def coqchk(ctx, prop_v=None):
    prop_v = prop_v or ("Props/%s.v" % ctx.prop)
    mod = "CB." + prop_v[:-2].replace("/", ".")
    rc, out = sh("coqchk -o -silent -Q . CB %s" % mod, cwd=COQ, timeout=3000)
    ctx.notes["coqchk"] = out[-1500:]
    return rc == 0, out


_TOK = re.compile(r"\s*(?:(\d+)(?:%[A-Za-z_]+)?|(-\s*\d+)(?:%[A-Za-z_]+)?|([A-Za-z_][A-Za-z0-9_.']*)|(\"(?:[^\"]|\"\")*\")|(.))")


def parse_coq_term(s):
    """Parse the term printed by `Eval vm_compute` (lists, tuples, numbers, constructor apps, strings)
    into Python: lists -> list, tuples -> tuple, numbers -> int, `Some x` -> ('Some', x), idents -> str."""
    toks = []
    for m in _TOK.finditer(s):
        if m.group(1) is not None:
            toks.append(int(m.group(1)))
        elif m.group(2) is not None:
            toks.append(int(m.group(2).replace(" ", "")))
        elif m.group(3) is not None:
            toks.append(("id", m.group(3)))
        elif m.group(4) is not None:
            toks.append(("str", m.group(4)[1:-1].replace('""', '"')))
        elif m.group(5) is not None and m.group(5).strip():
            toks.append(("p", m.group(5)))
    pos = [0]

    def peek():
        return toks[pos[0]] if pos[0] < len(toks) else None

    def nxt():
        t = toks[pos[0]]
        pos[0] += 1
        return t

    def atom():
        t = nxt()
        if isinstance(t, int):
            return t
        if t[0] == "id":
            return t[1]
        if t[0] == "str":
            return ("str", t[1])
        if t == ("p", "["):
            items = []
            if peek() == ("p", "]"):
                nxt()
                return items
            while True:
                items.append(app())
                t2 = nxt()
                if t2 == ("p", "]"):
                    return items
                assert t2 == ("p", ";"), t2
        if t == ("p", "("):
            items = [app()]
            while True:
                t2 = nxt()
                if t2 == ("p", ")"):
                    break
                assert t2 == ("p", ","), t2
                items.append(app())
            return items[0] if len(items) == 1 else tuple(items)
        if t == ("p", "-"):
            v = atom()
            return -v
        raise ValueError("unexpected token %r" % (t,))

    def app():
        head = atom()
        args = []
        while True:
            t = peek()
            if t is None or (isinstance(t, tuple) and t[0] == "p" and t[1] in "];,)"):
                break
            args.append(atom())
        if args:
            return (head,) + tuple(args)
        return head

    return app()


def coq_eval(ctx, name, preamble, exprs, shard=200, timeout=1200, parse=True):
    """Evaluate Gallina expressions with vm_compute in `coqc`.  `exprs` is a list of strings;
    they are grouped `shard` per file and the files are run in parallel.  Returns parsed terms."""
    coq_makefile()
    d = os.path.join(ctx.work, "eval_" + name)
    os.makedirs(d, exist_ok=True)
    for f in os.listdir(d):
        os.remove(os.path.join(d, f))
    files = []
    for i in range(0, len(exprs), shard):
        chunk = exprs[i:i + shard]
        fn = "cases_%s_%d" % (name, i // shard)
        with open(os.path.join(d, fn + ".v"), "w") as f:
            f.write(preamble + "\nSet Printing Width 2000000.\nSet Printing Depth 2000000.\n")
            for j, e in enumerate(chunk):
                f.write('Eval vm_compute in (%s).\n' % e)
        files.append(fn)
    procs = []
    results = {}
    maxp = 16
    pending = list(files)
    outs = {}
    while pending or procs:
        while pending and len(procs) < maxp:
            fn = pending.pop(0)
            p = subprocess.Popen(["timeout", str(timeout), "coqc", "-noglob", "-Q", COQ, "CB", "-w", "none",
                                  os.path.join(d, fn + ".v")], stdout=subprocess.PIPE, stderr=subprocess.STDOUT,
                                 cwd=d)
            procs.append((fn, p))
        fn, p = procs.pop(0)
        out = p.communicate()[0].decode("utf-8", "replace")
        outs[fn] = (p.returncode, out)
    res = []
    for fn in files:
        rc, out = outs[fn]
        if rc != 0:
            raise RuntimeError("coqc failed on %s: %s" % (fn, out[-2000:]))
        # each answer starts with "     = " and ends with "     : type"
        parts = re.split(r"^\s*= ", out, flags=re.M)[1:]
        for part in parts:
            m = re.search(r"\n\s*: [^\n]*(?:\n\s+[^\n]*)*\s*$", part)
            body = part[:m.start()] if m else part
            res.append(parse_coq_term(body) if parse else body.strip())
    if len(res) != len(exprs):
        raise RuntimeError("coq_eval: %d answers for %d expressions" % (len(res), len(exprs)))
    return res


# ---------------------------------------------------------------------- Rust harness
def cargo_build(ctx, pkg, timeout=3000, features=None):
    env = {"RUSTFLAGS": "--cfg %s" % GUARD, "CARGO_TARGET_DIR": TARGET}
    cmd = "cargo build --release --offline -p %s" % pkg
    if features:
        cmd += " --features " + features
    t = time.time()
    rc, out = sh(cmd, cwd=HARNESS, timeout=timeout, env=env)
    ctx.notes["cargo_build_s"] = round(time.time() - t, 1)
    if rc != 0:
        return False, out[-4000:]
    return True, os.path.join(TARGET, "release", pkg)


def run_bin(binpath, args, timeout=3000, input=None, env=None):
    e = {"RUST_BACKTRACE": "0"}
    if env:
        e.update(env)
    rc, out = sh([binpath] + [str(a) for a in args], timeout=timeout, input=input, env=e)
    return rc, out


def digest(x):
    return hashlib.sha256(json.dumps(x, sort_keys=True, default=str).encode()).hexdigest()[:16]


def main(run):
    """Entry point used by ./check."""
    raise NotImplementedError
